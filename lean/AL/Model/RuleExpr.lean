import AL.Model.Rules
import AL.Model.Visit
import AL.Model.ExprConv
import AL.Model.Proc
import AL.Gen.Popular
/-
  rule_expression.go as a whole, over the AST of AL.PW: which strings are checked, with which workflow key and in which
  mode (`VisitWorkflowPre`, `VisitJobPre`, `VisitStep`, `VisitJobPost`, `VisitWorkflowPost` and every `checkX` helper), the
  loop over the placeholders of a string (`checkExprsIn`: lexer, parser, semantic check under the scope in effect), the
  checks the rule puts on top of the expression's type, the types of `matrix`, `steps`, `needs`, `inputs`, `secrets`, `jobs`.

  The scope bookkeeping re-uses AL.Visit (`St`, `Header`, `mkEnv`, …); the expression checker is AL.Sema, the untrusted
  input machine AL.Insecure, lexer / parser AL.Lex / AL.Parse. A diagnostic is (the position of the string it comes from,
  code, arguments): positions inside a string are the subject of AL.Positions. Local actions and local reusable workflows
  are looked up in a project: what the project says about the reusable workflows a job calls or needs comes in through
  `ProjView` (computed by AL.ProjCall); with the empty view the model is the rule for a file linted without a project.
  Local ACTIONS are not looked up (`FindMetadata` of the actions cache returns nothing).
-/
namespace AL.RuleExpr
open AL AL.Ast AL.Sema
open AL.Visit (St Header mkEnv emptyStrict emptyLoose loosen erase mergeInclude)

abbrev Pos := AL.Yaml.Pos

structure Diag where
  site : Pos
  code : String
  args : List String
deriving Repr, DecidableEq, Inhabited

/-- what a project contributes to the checks of ONE job (computed by AL.ProjCall from what is on disk and from the
cache of interfaces; everything empty for a file linted without a project) -/
structure ProjJob where
  /-- needed job id ↦ type of its `outputs`, when the needed job calls a reusable workflow whose interface is known -/
  outs : List (String × Ty) := []
  /-- the declared inputs (id ↦ name, type) of the workflow this job calls, when `checkWorkflowCall` got its interface -/
  inputs : Option (List (String × (String × Ty))) := none

structure ProjView where
  /-- id of the visited job ↦ its view -/
  jobs : List (String × ProjJob) := []
  /-- `strconv.ParseFloat(v, 64)` succeeds -/
  isNumber : String → Bool := fun _ => false
  /-- spec of a local action ↦ the type of its `outputs`, when the project has its metadata (`typeOfActionOutputs`) -/
  actionOutputs : String → Option Ty := fun _ => none
  /-- `config-variables` of the configuration file (`none` = nil: `vars.*` is not checked) -/
  configVars : Option (List String) := none

def ProjView.jobView (p : ProjView) (id : String) : ProjJob :=
  match p.jobs.find? (·.1 = id) with
  | some e => e.2
  | none => {}

/-- the part of the rule's state an expression is checked under -/
structure Cx where
  lower : String → String
  hdr : Header := ⟨none, none, none⟩
  jobsTy : Option Ty := none
  st : St := St.init
  proj : ProjView := {}
  /-- the view of the job being visited -/
  job : ProjJob := {}

def bytesOf (s : String) : List Nat := s.toUTF8.toList.map (·.toNat)

/-- `checkSemanticsOfExprNode`: the semantic check of a parsed placeholder under the scope in effect -/
def checkParsed (cx : Cx) (key : String) (untrusted : Bool) (pe : AL.Parse.Expr) (off : Nat) : Option (Ty × Nat) × List SemaErr :=
  let r := check { mkEnv cx.lower cx.hdr cx.jobsTy cx.st key with configVars := cx.proj.configVars } (toE cx.lower pe)
  let u := if untrusted then (AL.Insecure.run AL.Gen.untrustedRoots r.evs).map fun paths => err "untrusted" paths else []
  let errs := r.errs ++ u
  if errs.isEmpty then (some (r.ty, off), []) else (none, errs)

/-- `checkSemantics` for the text after one `${{`: the type, the lexer's offset, the diagnostics -/
def checkOne (cx : Cx) (key : String) (untrusted : Bool) (rest : List Nat) : Option (Ty × Nat) × List SemaErr :=
  match AL.Lex.lexExpression (decodeUtf8 rest), AL.Parse.parseToks (AL.Lex.tokens (decodeUtf8 rest)) with
  | .ok (_, off), .ok pe => checkParsed cx key untrusted pe off
  | _, _ => (none, [err "syntax-error" []])

/-- the loop of `checkExprsIn`; `none` = `ok` is false -/
def scan (cx : Cx) (key : String) (untrusted : Bool) : Nat → List Nat → List Ty → Option (List Ty) × List SemaErr
  | 0, _, ts => (some ts, [])
  | fuel + 1, s, ts =>
    match AL.Proc.indexOf AL.Proc.open3 s 0 with
    | none => (some ts, [])
    | some idx =>
      let rest := s.drop (idx + 3)
      match checkOne cx key untrusted rest with
      | (none, errs) => (none, errs)
      | (some (ty, off), _) =>
        if off = 0 then (some [], [])
        else scan cx key untrusted fuel (rest.drop off) (ts ++ [ty])

/-- `checkExprsIn` -/
def checkExprsIn (cx : Cx) (key : String) (untrusted : Bool) (s : String) : Option (List Ty) × List SemaErr :=
  scan cx key untrusted (bytesOf s).length (bytesOf s) []

def at_ (s : Str) (es : List SemaErr) : List Diag := es.map fun e => ⟨s.pos, e.code, e.args⟩

/-- `checkTemplateEvaluatedType` -/
def templateDiags (ts : List Ty) : List SemaErr :=
  ts.flatMap fun t => match t with
    | .obj .. => [err "template-type" [tyStr t]]
    | .arr .. => [err "template-type" [tyStr t]]
    | .null => [err "template-type" [tyStr t]]
    | _ => []

/-- `checkString` / `checkScriptString`: the types of the placeholders (nil when a placeholder has a diagnostic) -/
def checkStrU (cx : Cx) (untrusted : Bool) (s : Option Str) (key : String) : List Ty × List Diag :=
  match s with
  | none => ([], [])
  | some str =>
    match checkExprsIn cx key untrusted str.value with
    | (none, es) => ([], at_ str es)
    | (some ts, es) => (ts, at_ str (es ++ templateDiags ts))

def checkString (cx : Cx) (s : Option Str) (key : String) : List Diag := (checkStrU cx false s key).2
def checkScriptString (cx : Cx) (s : Option Str) (key : String) : List Diag := (checkStrU cx true s key).2
def checkStrings (cx : Cx) (ss : Option (List Str)) (key : String) : List Diag :=
  (ss.getD []).flatMap fun s => checkString cx (some s) key

/-- `checkOneExpression` -/
def checkOneExpression (cx : Cx) (s : Option Str) (what key : String) : Option Ty × List Diag :=
  match s with
  | none => (none, [])
  | some str =>
    match checkExprsIn cx key false str.value with
    | (none, es) => (none, at_ str es)
    | (some [t], es) => (some t, at_ str es)
    | (some ts, es) => (none, at_ str (es ++ [err "one-expression" [what, toString ts.length]]))

def mustBe (p : Ty → Bool) (code what : String) (s : Option Str) (r : Option Ty × List Diag) : Option Ty × List Diag :=
  match r.1, s with
  | some t, some str => if p t then r else (none, r.2 ++ at_ str [err code [what, tyStr t]])
  | _, _ => r

def isObjOrAny : Ty → Bool | .obj .. => true | .any => true | _ => false
def isArrOrAny : Ty → Bool | .arr .. => true | .any => true | _ => false
def isNumOrAny : Ty → Bool | .number => true | .any => true | _ => false

def checkObjectExpression (cx : Cx) (s : Option Str) (what key : String) : Option Ty × List Diag :=
  mustBe isObjOrAny "must-be-object" what s (checkOneExpression cx s what key)
def checkArrayExpression (cx : Cx) (s : Option Str) (what key : String) : Option Ty × List Diag :=
  mustBe isArrOrAny "must-be-array" what s (checkOneExpression cx s what key)
def checkNumberExpression (cx : Cx) (s : Option Str) (what key : String) : Option Ty × List Diag :=
  mustBe isNumOrAny "must-be-number" what s (checkOneExpression cx s what key)

/-- `checkBool` -/
def checkBool (cx : Cx) (b : Option BoolV) (key : String) : List Diag :=
  match b with
  | none => []
  | some b =>
    match b.expr with
    | none => []
    | some e =>
      let r := checkOneExpression cx (some e) "bool value" key
      match r.1 with
      | some .bool => r.2
      | some .any => r.2
      | some t => r.2 ++ at_ e [err "must-be-bool" [tyStr t]]
      | none => r.2

def checkInt (cx : Cx) (i : Option IntV) (key : String) : List Diag :=
  match i with
  | none => []
  | some i => (checkNumberExpression cx i.expr "integer value" key).2

def checkFloat (cx : Cx) (f : Option FloatV) (key : String) : List Diag :=
  match f with
  | none => []
  | some f => (checkNumberExpression cx f.expr "float number value" key).2

/-- `checkEnv` -/
def checkEnv (cx : Cx) (env : Option Ast.Env) (key : String) : List Diag :=
  match env with
  | none => []
  | some e =>
    match e.vars with
    | some vars => vars.flatMap fun kv => checkString cx (some kv.2.name) key ++ checkString cx (some kv.2.value) key
    | none => (checkObjectExpression cx e.expr "env" key).2

/-- `checkContainer` -/
def checkContainer (cx : Cx) (c : Option Container) (key childPrefix : String) : List Diag :=
  match c with
  | none => []
  | some c =>
    let child := if childPrefix ≠ "" then key ++ "." ++ childPrefix else key
    checkString cx c.image key ++
    (match c.credentials with
     | some cr => checkString cx cr.username (child ++ ".credentials") ++ checkString cx cr.password (child ++ ".credentials")
     | none => []) ++
    checkEnv cx c.env (child ++ ".env.<env_id>") ++
    checkStrings cx c.ports key ++ checkStrings cx c.volumes key ++ checkString cx c.options key

def checkConcurrency (cx : Cx) (c : Option Concurrency) (key : String) : List Diag :=
  match c with
  | none => []
  | some c => checkString cx c.group key ++ checkBool cx c.cancelInProgress key

def checkDefaults (cx : Cx) (d : Option Defaults) (key : String) : List Diag :=
  match d with
  | none => []
  | some d =>
    match d.run with
    | none => []
    | some r => checkString cx r.shell key ++ checkString cx r.workingDirectory key

/-- `checkIfCondition` -/
def checkIfCondition (cx : Cx) (s : Option Str) (key : String) : List Diag :=
  match s with
  | none => []
  | some str =>
    let notBool (t : Ty) : List Diag :=
      match t with
      | .bool => [] | .any => []
      -- `BoolType.Assignable`: every type converts to bool except that the check is on assignability
      | t => if Ty.assignable .bool t then [] else at_ str [err "if-cond-type" [tyStr t]]
    if AL.Rules.containsExpr str then
      let r := checkStrU cx false (some str) key
      match r.1 with
      | [t] => if AL.Yaml.isExprAssigned str.value then r.2 ++ notBool t else r.2
      | _ => r.2
    else
      -- the whole value is an expression: `src + "}}"`
      match checkOne cx key false (bytesOf str.value ++ [125, 125]) with
      | (none, es) => at_ str es
      | (some (t, _), _) => notBool t

/-! ### the matrix -/

/-- `strconv.ParseFloat(s, 64)` succeeds -/
abbrev IsNumber := String → Bool

def trimmed (s : String) : String := String.ofList (AL.Yaml.trimSpace s.toList)

/-- `checkRawYAMLString` -/
def rawStringTy (cx : Cx) (isNum : IsNumber) (v : String) (pos : Pos) : Ty × List Diag :=
  let r := checkExprsIn cx "jobs.<job_id>.strategy" false v
  let ds := at_ ⟨v, false, pos⟩ r.2
  if AL.Yaml.isExprAssigned v then
    match r.1 with
    | some [t] => (t, ds)
    | _ => (.any, ds)
  else
    let s := trimmed v
    if s = "true" || s = "false" then (.bool, ds)
    else if s = "null" then (.null, ds)
    else if isNum s then (.number, ds)
    else (.string, ds)

mutual
/-- `checkRawYAMLValue` -/
def rawTy (cx : Cx) (isNum : IsNumber) : AL.Matrix.Raw → Ty × List Diag
  | .str v p => rawStringTy cx isNum v p
  | .arr es _ =>
    match es with
    | [] => (.arr .any false, [])
    | e :: rest =>
      let h := rawTy cx isNum e
      let r := rawFold cx isNum h.1 rest
      (.arr r.1 false, h.2 ++ r.2)
  | .obj ps _ =>
    let r := rawProps cx isNum ps
    (.obj r.1 none, r.2)
def rawFold (cx : Cx) (isNum : IsNumber) (acc : Ty) : List AL.Matrix.Raw → Ty × List Diag
  | [] => (acc, [])
  | v :: vs =>
    let t := rawTy cx isNum v
    let r := rawFold cx isNum (Ty.merge acc t.1) vs
    (r.1, t.2 ++ r.2)
def rawProps (cx : Cx) (isNum : IsNumber) : List (String × AL.Matrix.Raw) → List (String × Ty) × List Diag
  | [] => ([], [])
  | (k, v) :: ps =>
    let t := rawTy cx isNum v
    let r := rawProps cx isNum ps
    (Ty.setProp k t.1 r.1, t.2 ++ r.2)
end

/-- `checkMatrixRow` -/
def rowTy (cx : Cx) (isNum : IsNumber) (r : MatrixRow) : Ty × List Diag :=
  match r.expr with
  | some e =>
    let a := checkArrayExpression cx (some e) "matrix row" "jobs.<job_id>.strategy"
    (match a.1 with | some (.arr el _) => el | _ => .any, a.2)
  | none =>
    match r.values.getD [] with
    | [] => (.any, [])
    | v :: vs =>
      let h := rawTy cx isNum v
      let f := rawFold cx isNum h.1 vs
      (f.1, h.2 ++ f.2)

/-- the `exclude` part of `checkMatrix`: diagnostics only -/
def excludeDiags (cx : Cx) (isNum : IsNumber) (ex : Option MatrixCombinations) : List Diag :=
  match ex with
  | none => []
  | some ex =>
    match ex.expr with
    | some e =>
      let a := checkArrayExpression cx (some e) "exclude" "jobs.<job_id>.strategy"
      (match a.1 with
       | some (.arr el _) => if isObjOrAny el then a.2 else a.2 ++ at_ e [err "must-be-object" ["exclude", tyStr el]]
       | _ => a.2)
    | none =>
      (ex.combinations.getD []).flatMap fun c =>
        match c.expr with
        | some e => (checkObjectExpression cx (some e) "exclude" "jobs.<job_id>.strategy").2
        | none => (c.assigns.getD []).flatMap fun kv => (rawTy cx isNum kv.2.value).2

/-- one `include` combination folded into the matrix type -/
def includeCombo (cx : Cx) (isNum : IsNumber) (acc : Ty × List Diag) (c : MatrixCombination) : Ty × List Diag :=
  match c.expr with
  | some e =>
    let r := checkOneExpression cx (some e) "matrix combination at element of include section" "jobs.<job_id>.strategy"
    match r.1 with
    | none => (acc.1, acc.2 ++ r.2)
    | some ty =>
      (match Ty.merge acc.1 ty with
       | .obj ps m => .obj ps m
       | _ => loosen acc.1, acc.2 ++ r.2)
  | none =>
    (c.assigns.getD []).foldl (fun a kv =>
      let t := rawTy cx isNum kv.2.value
      match a.1 with
      | .obj ps m =>
        let ty' := match Ty.lookup kv.1 ps with
          | some old => Ty.merge old t.1
          | none => t.1
        (.obj (Ty.setProp kv.1 ty' ps) m, a.2 ++ t.2)
      | o => (o, a.2 ++ t.2)) acc

/-- `checkMatrixExpression` -/
def matrixExprTy (cx : Cx) (e : Str) : Ty × List Diag :=
  let r := checkObjectExpression cx (some e) "matrix" "jobs.<job_id>.strategy"
  match r.1 with
  | some (.obj ps m) =>
    let ps1 := match Ty.lookup "include" ps with
      | some (.arr (.obj ips _) _) => mergeInclude (erase "include" ps) ips
      | some _ => erase "include" ps
      | none => ps
    (.obj (erase "exclude" ps1) m, r.2)
  | _ => (emptyLoose, r.2)

/-- `checkMatrix` -/
def checkMatrix (cx : Cx) (isNum : IsNumber) (m : Matrix) : Ty × List Diag :=
  match m.expr with
  | some e => matrixExprTy cx e
  | none =>
    let ex := excludeDiags cx isNum m.excl
    let rows := (m.rows.getD []).foldl (fun (acc : List (String × Ty) × List Diag) kv =>
      let t := rowTy cx isNum kv.2
      (Ty.setProp kv.1 t.1 acc.1, acc.2 ++ t.2)) ([], [])
    let o : Ty := .obj rows.1 none
    match m.incl with
    | none => (o, ex ++ rows.2)
    | some inc =>
      match inc.expr with
      | some e =>
        let r := checkOneExpression cx (some e) "include" "jobs.<job_id>.strategy"
        (match r.1 with
         | some (.arr el _) =>
           (match Ty.merge o el with
            | .obj ps mm => .obj ps mm
            | _ => emptyLoose)
         | _ => emptyLoose, ex ++ rows.2 ++ r.2)
      | none =>
        let r := (inc.combinations.getD []).foldl (includeCombo cx isNum) (o, [])
        (r.1, ex ++ rows.2 ++ r.2)

/-! ### steps, jobs -/

/-- `typeOfActionOutputs` / `getActionOutputsType`: bundled actions from the regenerated table, local actions from the
project's view -/
def popularOutputs (spec : String) : Option Ty :=
  match AL.Gen.popularChunks.findSome? (fun ch => ch.find? (·.1 = spec)) with
  | some (_, _, outs, _, skipOutputs) =>
    if skipOutputs then some emptyLoose
    else some (.obj (outs.foldl (fun ps o => Ty.setProp (AL.PW.asciiLower o.1) .string ps) []) none)
  | none => none

def mapOfString : Ty := .obj [] (some .string)

def actionOutputsTy (localOuts : String → Option Ty) (spec : Option Str) : Ty :=
  match spec with
  | none => mapOfString
  | some s =>
    if s.value.startsWith "./" then (localOuts s.value).getD mapOfString
    else if s.value.startsWith "actions/github-script@" then emptyLoose
    else (popularOutputs s.value).getD mapOfString

/-- the `switch e := n.Exec.(type)` of `VisitStep`: diagnostics and the action spec -/
def stepExec (cx : Cx) : Exec → List Diag × Option Str
  | .run e =>
    (checkScriptString cx e.run "jobs.<job_id>.steps.run" ++ checkString cx e.shell "" ++
      checkString cx e.workingDirectory "jobs.<job_id>.steps.working-directory", none)
  | .action e =>
    (checkString cx e.uses "" ++
      ((e.inputs.getD []).flatMap fun kv =>
        if (match e.uses with | some u => (cx.lower u.value).startsWith "actions/github-script@" | none => false) && kv.1 = "script" then
          checkScriptString cx (some kv.2.value) "jobs.<job_id>.steps.with"
        else checkString cx (some kv.2.value) "jobs.<job_id>.steps.with") ++
      checkString cx e.entrypoint "jobs.<job_id>.steps.with" ++ checkString cx e.args "jobs.<job_id>.steps.with", e.uses)
  | .none => ([], none)

/-- everything `VisitStep` checks before it looks at the id -/
def stepDiags (cx : Cx) (n : Step) : List Diag :=
  checkString cx n.name "jobs.<job_id>.steps.name" ++ checkIfCondition cx n.cond "jobs.<job_id>.steps.if" ++
  (stepExec cx n.exec).1 ++
  checkEnv cx n.env "jobs.<job_id>.steps.env" ++ checkBool cx n.continueOnError "jobs.<job_id>.steps.continue-on-error" ++
  checkFloat cx n.timeoutMinutes "jobs.<job_id>.steps.timeout-minutes"

/-- `VisitStep`: the diagnostics of the step and the steps type afterwards -/
def visitStep (cx : Cx) (n : Step) : Cx × List Diag :=
  match n.id with
  | none => (cx, stepDiags cx n)
  | some id =>
    let dyn := AL.Rules.containsExpr id
    let d4 := if dyn then checkString cx (some id) "" else []
    let stepsTy := cx.st.stepsTy.map fun t =>
      let t := if dyn then loosen t else t
      match t with
      | .obj ps m => .obj (Ty.setProp (cx.lower id.value) (.obj [("conclusion", .string), ("outcome", .string), ("outputs", actionOutputsTy cx.proj.actionOutputs (stepExec cx n.exec).2)] none) ps) m
      | t => t
    ({ cx with st := { cx.st with stepsTy := stepsTy } }, stepDiags cx n ++ d4)

def visitSteps (cx : Cx) : List Step → Cx × List Diag
  | [] => (cx, [])
  | s :: ss =>
    let r := visitStep cx s
    let r' := visitSteps r.1 ss
    (r'.1, r.2 ++ r'.2)

def lookupJob (i : String) : List (String × Job) → Option Job
  | [] => none
  | (k, j) :: rest => if k = i then some j else lookupJob i rest

def declaredOutputsTy (j : Job) : Ty :=
  .obj ((j.outputs.getD []).foldl (fun ps kv => Ty.setProp kv.1 .string ps) []) none

/-- `calcNeedsType`; `outs`: the outputs of the needed jobs that call a reusable workflow with a known interface
(`getWorkflowCallOutputsType`) — `{string => string}` for the others -/
def needsTy (outs : List (String × Ty)) (lower : String → String) (jobs : List (String × Job)) (job : Job) : Ty :=
  .obj ((job.needs.getD []).foldl (fun ps id =>
    let i := lower id.value
    if i = lower job.id.value then ps
    else if (Ty.lookup i ps).isSome then ps
    else match lookupJob i jobs with
      | none => ps
      | some j =>
        let outs := if j.workflowCall.isNone then declaredOutputsTy j else (Ty.lookup i outs).getD mapOfString
        Ty.setProp i (.obj [("outputs", outs), ("result", .string)] none) ps) []) none

/-- the type of the value supplied for an input of a called workflow (`checkWorkflowCall`): by spelling when it has no
placeholder, the placeholder's type when the value IS one placeholder, else string -/
def suppliedTy (cx : Cx) (v : Str) (ts : List Ty) : Ty :=
  match ts with
  | [] =>
    let t := String.ofList (AL.Yaml.trimSpace v.value.toList)
    if t = "null" then .null
    else if t = "true" || t = "false" then .bool
    else if cx.proj.isNumber t then .number
    else .string
  | [t] => if AL.Yaml.isExprAssigned v.value then t else .string
  | _ => .string

/-- the typed check of one `with:` entry against the called workflow's declared input -/
def typedInput (cx : Cx) (u : Str) (kv : String × CallArg) (ts : List Ty) : List Diag :=
  match cx.job.inputs with
  | none => []
  | some ins =>
    match ins.find? (·.1 = kv.1) with
    | none => []
    | some (_, (name, decl)) =>
      if decl.isAny then []
      else
        let ty := suppliedTy cx kv.2.value ts
        if Ty.assignable decl ty then []
        else [⟨kv.2.value.pos, "call-input-type", [name, tyStr decl, u.value, tyStr ty]⟩]

/-- `checkWorkflowCall`: the strings, and — when the project knows the called workflow's interface — the types of the
supplied inputs -/
def checkWorkflowCall (cx : Cx) (c : Option WorkflowCall) : List Diag :=
  match c with
  | none => []
  | some c =>
    match c.uses with
    | none => []
    | some u =>
      checkString cx (some u) "" ++
      ((c.inputs.getD []).flatMap fun kv =>
        let r := checkStrU cx false (some kv.2.value) "jobs.<job_id>.with.<with_id>"
        r.2 ++ typedInput cx u kv r.1) ++
      ((c.secrets.getD []).flatMap fun kv => checkString cx (some kv.2.value) "jobs.<job_id>.secrets.<secrets_id>")

def runsOnDiags (cx : Cx) (r : Option Runner) : List Diag :=
  match r with
  | none => []
  | some r =>
    (match r.labelsExpr with
     | some e =>
       let t := checkOneExpression cx (some e) "runner label at \"runs-on\" section" "jobs.<job_id>.runs-on"
       (match t.1 with
        | some (.arr ..) => t.2 | some .string => t.2 | some .any => t.2
        | some ty => t.2 ++ at_ e [err "runs-on-type" [tyStr ty]]
        | none => t.2)
     | none => (r.labels.getD []).flatMap fun l => checkString cx (some l) "jobs.<job_id>.runs-on") ++
    checkString cx r.group "jobs.<job_id>.runs-on"

def strategyDiags (cx : Cx) (s : Option Strategy) : List Diag :=
  match s with
  | some s => checkBool cx s.failFast "jobs.<job_id>.strategy" ++ checkInt cx s.maxParallel "jobs.<job_id>.strategy"
  | none => []

def servicesDiags (cx : Cx) (s : Option Services) : List Diag :=
  match s with
  | some s =>
    (checkObjectExpression cx s.expr "services" "jobs.<job_id>.services").2 ++
    ((s.value.getD []).flatMap fun kv => checkContainer cx (some kv.2.container) "jobs.<job_id>.services" "<service_id>")
  | none => []

/-- `VisitJobPre` after the matrix: everything checked under the job's scope before its steps -/
def jobPre (cx : Cx) (n : Job) : List Diag :=
  checkString cx n.name "jobs.<job_id>.name" ++ checkStrings cx n.needs "" ++ runsOnDiags cx n.runsOn ++
  checkConcurrency cx n.concurrency "jobs.<job_id>.concurrency" ++ checkEnv cx n.env "jobs.<job_id>.env" ++
  checkDefaults cx n.defaults "jobs.<job_id>.defaults.run" ++ checkIfCondition cx n.cond "jobs.<job_id>.if" ++
  strategyDiags cx n.strategy ++
  checkBool cx n.continueOnError "jobs.<job_id>.continue-on-error" ++ checkFloat cx n.timeoutMinutes "jobs.<job_id>.timeout-minutes" ++
  checkContainer cx n.container "jobs.<job_id>.container" "" ++ servicesDiags cx n.services ++
  checkWorkflowCall cx n.workflowCall

/-- `VisitJobPost` -/
def jobPost (cx : Cx) (n : Job) : List Diag :=
  (match n.environment with
   | some e => checkString cx e.name "jobs.<job_id>.environment" ++ checkString cx e.url "jobs.<job_id>.environment.url"
   | none => []) ++
  ((n.outputs.getD []).flatMap fun kv => checkString cx (some kv.2.value) "jobs.<job_id>.outputs.<output_id>")

/-- the matrix of the job: its type (if any) and its diagnostics -/
def jobMatrix (cx : Cx) (isNum : IsNumber) (n : Job) : Option Ty × List Diag :=
  match n.strategy with
  | some s =>
    (match s.matrix with
     | some m => let r := checkMatrix cx isNum m; (some r.1, r.2)
     | none => (none, []))
  | none => (none, [])

/-- `VisitJobPre`, the steps, `VisitJobPost` -/
def visitJob (cx0 : Cx) (isNum : IsNumber) (jobs : List (String × Job)) (n : Job) : List Diag :=
  let view := cx0.proj.jobView n.id.value
  let cx1 : Cx := { cx0 with job := view, st := { cx0.st with needsTy := some (needsTy view.outs cx0.lower jobs n) } }
  let mx := jobMatrix cx1 isNum n
  let cx : Cx := match mx.1 with
    | some t => { cx1 with st := { cx1.st with matrixTy := some t } }
    | none => cx1
  let cxS : Cx := { cx with st := { cx.st with stepsTy := some emptyStrict } }
  let rs := visitSteps cxS (n.steps.getD [])
  mx.2 ++ jobPre cx n ++ rs.2 ++ jobPost rs.1 n

/-! ### the workflow -/

def dispatchTy : DispatchInputType → Ty
  | .boolean => .bool | .number => .number | .string => .string | .choice => .string | .environment => .string | .none => .any

def callTy : CallInputType → Ty
  | .string => .string | .boolean => .bool | .number => .number | .invalid => .any

/-- the inputs of `workflow_call`, in order: each is checked with the inputs declared before it in scope -/
def callInputs (cx : Cx) : List (String × Ty) → List Ast.CallInput → List (String × Ty) × List Diag
  | acc, [] => (acc, [])
  | acc, i :: rest =>
    let cxi : Cx := { cx with hdr := { cx.hdr with callInputs := some acc } }
    let d1 := checkString cxi i.description "" ++ checkBool cxi i.required ""
    let ts := checkStrU cxi false i.dflt "on.workflow_call.inputs.<inputs_id>.default"
    let assigned := match i.dflt with | some d => AL.Yaml.isExprAssigned d.value | none => false
    let d2 := match i.type, ts.1, i.dflt with
      | .boolean, [t], some d => if assigned then (match t with | .bool => [] | .any => [] | t => at_ d [err "input-default-bool" [i.name.value, tyStr t]]) else []
      | .number, [t], some d => if assigned then (match t with | .number => [] | .any => [] | t => at_ d [err "input-default-number" [i.name.value, tyStr t]]) else []
      | _, _, _ => []
    let r := callInputs cx (acc ++ [(i.id, callTy i.type)]) rest
    (r.1, d1 ++ ts.2 ++ d2 ++ r.2)

def filterDiags (cx : Cx) (x : Option Filter) : List Diag :=
  match x with
  | some f => checkStrings cx f.values ""
  | none => []

def webhookDiags (cx : Cx) (e : WebhookEvent) : List Diag :=
  checkStrings cx e.types "" ++ filterDiags cx e.branches ++ filterDiags cx e.branchesIgnore ++ filterDiags cx e.tags ++
  filterDiags cx e.tagsIgnore ++ filterDiags cx e.paths ++ filterDiags cx e.pathsIgnore ++ checkStrings cx e.workflows ""

def dispatchInputDiags (cx : Cx) (i : DispatchInput) : List Diag :=
  checkString cx i.description "" ++ checkString cx i.dflt "" ++ checkBool cx i.required "" ++ checkStrings cx i.options ""

def callSecretDiags (cx : Cx) (s : CallSecret) : List Diag := checkString cx s.description "" ++ checkBool cx s.required ""

/-- one event of `on:` (`VisitWorkflowPre`) -/
def visitEvent (cx : Cx) : Ast.Event → Cx × List Diag
  | .webhook e => (cx, webhookDiags cx e)
  | .schedule cron _ => (cx, checkStrings cx (some cron) "")
  | .dispatch inputs _ =>
    let ins := inputs.getD []
    ({ cx with hdr := { cx.hdr with dispatchInputs := some (ins.map fun kv => (kv.1, dispatchTy kv.2.type)) } },
     ins.flatMap fun kv => dispatchInputDiags cx kv.2)
  | .repoDispatch types _ => (cx, checkStrings cx types "")
  | .call inputs secrets outputs _ =>
    let r := callInputs { cx with hdr := { cx.hdr with callInputs := some [] } } [] (inputs.getD [])
    let cx1 : Cx := { cx with hdr := { cx.hdr with callInputs := some r.1 } }
    let ds := (secrets.getD []).flatMap fun kv => callSecretDiags cx1 kv.2
    let cx2 : Cx := match secrets with
      | some ss => { cx1 with hdr := { cx1.hdr with callSecrets := some (ss.map (·.1)) } }
      | none => cx1
    let dout := (outputs.getD []).flatMap fun kv => checkString cx2 kv.2.description ""
    (cx2, r.2 ++ ds ++ dout)

def visitEvents (cx : Cx) : List Ast.Event → Cx × List Diag
  | [] => (cx, [])
  | e :: es =>
    let r := visitEvent cx e
    let r' := visitEvents r.1 es
    (r'.1, r.2 ++ r'.2)

/-- `checkWorkflowCallOutputs`: the `jobs` context -/
def jobsTyOf (jobs : List (String × Job)) : Ty :=
  .obj (jobs.foldl (fun ps kv =>
    Ty.setProp kv.1 (.obj [("outputs", if kv.2.workflowCall.isSome then emptyLoose else declaredOutputsTy kv.2)] none) ps) []) none

def findCallOutputs : List Ast.Event → Option (List (String × CallOutput))
  | [] => none
  | .call _ _ outs _ :: _ => some (outs.getD [])
  | _ :: rest => findCallOutputs rest

/-- the whole rule on one workflow -/
def rule (lower : String → String) (isNum : IsNumber) (w : Workflow) (proj : ProjView := {}) : List Diag :=
  let cx0 : Cx := { lower := lower, proj := proj }
  let dName := checkString cx0 w.name ""
  let ev := visitEvents cx0 (w.on.getD [])
  let cx := ev.1
  let top := checkString cx w.runName "run-name" ++ checkEnv cx w.env "env" ++ checkDefaults cx w.defaults "" ++
    checkConcurrency cx w.concurrency "concurrency"
  let jobs := w.jobs.getD []
  let dj := jobs.flatMap fun kv => visitJob cx isNum jobs kv.2
  let dOut := match findCallOutputs (w.on.getD []) with
    | some outs =>
      if outs.isEmpty || jobs.isEmpty then []
      else
        let cxo : Cx := { cx with jobsTy := some (jobsTyOf jobs) }
        outs.flatMap fun kv => checkString cxo kv.2.value "on.workflow_call.outputs.<output_id>.value"
    | none => []
  dName ++ ev.2 ++ top ++ dj ++ dOut

end AL.RuleExpr
