import AL.Model.RuleExpr
import AL.Model.CallMeta
/-
  The project case of reusable-workflow calls: rule_workflow_call.go (`VisitWorkflowPre`, `VisitJobPre`,
  `checkWorkflowCallUsesLocal`) and the three places where rule_expression.go asks for a called workflow's interface
  (`checkWorkflowCall`, `getWorkflowCallOutputsType` via `calcNeedsType`), with the cache of
  `LocalReusableWorkflowCache` between them (`FindMetadata`, `writeCache`, `WriteWorkflowCallEvent`).

  What is on disk is a parameter: `disk spec` says what reading and decoding the file named by a spec gives (the decoding
  itself is AL.CallMeta.fromDoc). One file is linted by a fresh linter: the cache starts empty, except for the linted
  file's own interface when it has a `workflow_call` event. Jobs are visited in source order, for each job the
  workflow-call rule comes before the expression rule (linter.go's rule list); a failed look-up is remembered, so that the
  callee's defect is reported once — by whichever rule and job asks first.
-/
namespace AL.ProjCall
open AL AL.Ast AL.CallMeta

abbrev Pos := AL.Yaml.Pos

/-- what reading + decoding the file behind a spec gives -/
inductive OnDisk where
  | missing            -- os.ReadFile fails
  | broken             -- parseReusableWorkflowMetadata fails
  | ok (m : Meta)
deriving Repr

structure Env where
  /-- is the linted file inside a repository (`proj != nil`)? -/
  hasProject : Bool := true
  disk : String → OnDisk := fun _ => .missing
  /-- `convWorkflowPathToSpec` of the linted file -/
  self : Option String := none

/-- `cache map[string]*ReusableWorkflowMetadata`; `none` = a remembered failure -/
abbrev Cache := List (String × Option Meta)

def cacheGet (c : Cache) (spec : String) : Option (Option Meta) :=
  match c.find? (·.1 = spec) with
  | some e => some e.2
  | none => none

/-- `c.cache[spec] = v`: the newest entry for a key is the one `cacheGet` finds -/
def cachePut (c : Cache) (spec : String) (v : Option Meta) : Cache := (spec, v) :: c

inductive Found where
  | nothing
  | err (code : String)
  | found (m : Meta)

/-- `FindMetadata` answers nothing without looking: no project, not a `./` spec, a placeholder in the spec -/
def skipped (env : Env) (spec : String) : Bool :=
  !env.hasProject || !spec.startsWith "./" || AL.Matrix.containsExpr spec

/-- what reading the file gives, as an answer … -/
def diskAnswer (env : Env) (spec : String) : Found :=
  match env.disk spec with
  | .ok m => .found m
  | .missing => .err "callee-unreadable"
  | .broken => .err "callee-broken"

/-- … and as a cache entry -/
def diskEntry (env : Env) (spec : String) : Option Meta :=
  match env.disk spec with
  | .ok m => some m
  | _ => none

/-- the answer of `FindMetadata` -/
def answer (env : Env) (c : Cache) (spec : String) : Found :=
  if skipped env spec then .nothing
  else match cacheGet c spec with
    | some (some m) => .found m
    | some none => .nothing
    | none => diskAnswer env spec

/-- the cache after `FindMetadata`: a spec that was not cached is now, a failure as `nil` -/
def remember (env : Env) (c : Cache) (spec : String) : Cache :=
  if skipped env spec then c
  else match cacheGet c spec with
    | some _ => c
    | none => cachePut c spec (diskEntry env spec)

/-- `FindMetadata` -/
def find (env : Env) (c : Cache) (spec : String) : Cache × Found := (remember env c spec, answer env c spec)

/-- `RuleWorkflowCall.VisitWorkflowPre` + `WriteWorkflowCallEvent`: the linted file's own interface, from its AST -/
def initialCache (env : Env) (w : Workflow) : Cache :=
  match env.hasProject, env.self, fromEvents (w.on.getD []) with
  | true, some spec, some m => [(spec, some m)]
  | _, _, _ => []

/-! ### rule_workflow_call.go -/

def keysOf {α : Type} (m : List (String × α)) : List String := m.map (·.1)

/-- `checkWorkflowCallUsesLocal` given the interface -/
def checkLocal (m : Meta) (c : WorkflowCall) (u : Str) : List AL.Rules.Diag :=
  let withs := c.inputs.getD []
  let secs := c.secrets.getD []
  ((AL.PW.sortStrings (keysOf m.inputs)).flatMap fun n =>
    match m.inputs.find? (·.1 = n) with
    | some (_, i) => if i.required && !(keysOf withs).contains n then [⟨u.pos, "workflow-call", "input-required", [i.name, u.value]⟩] else []
    | none => []) ++
  (withs.flatMap fun kv =>
    if (keysOf m.inputs).contains kv.1 then []
    else [⟨kv.2.name.pos, "workflow-call", "input-undefined",
      [kv.2.name.value, u.value] ++ AL.PW.sortStrings (m.inputs.map (·.2.name))⟩]) ++
  (if c.inheritSecrets then [] else
    ((AL.PW.sortStrings (keysOf m.secrets)).flatMap fun n =>
      match m.secrets.find? (·.1 = n) with
      | some (_, s) => if s.required && !(keysOf secs).contains n then [⟨u.pos, "workflow-call", "secret-required", [s.name, u.value]⟩] else []
      | none => []) ++
    (secs.flatMap fun kv =>
      if (keysOf m.secrets).contains kv.1 then []
      else [⟨kv.2.name.pos, "workflow-call", "secret-undefined",
        [kv.2.name.value, u.value] ++ AL.PW.sortStrings (m.secrets.map (·.2.name))⟩]))

/-- what a look-up contributes to rule workflow-call at the job that calls `u` -/
def wcFound (f : Found) (call : WorkflowCall) (u : Str) : List AL.Rules.Diag :=
  match f with
  | .err code => [⟨u.pos, "workflow-call", code, [u.value]⟩]
  | .nothing => []
  | .found m => checkLocal m call u

def wcUses (env : Env) (c : Cache) (call : WorkflowCall) (u : Str) : Cache × List AL.Rules.Diag :=
  if u.value = "" || AL.Rules.containsExpr u then (c, [])
  else if AL.Rules.isLocalCallFormat u.value then ((find env c u.value).1, wcFound (find env c u.value).2 call u)
  else if AL.Rules.isRepoCallFormat u.value then (c, [])
  else ((if u.value.startsWith "./" then cachePut c u.value none else c), [])

/-- `RuleWorkflowCall.VisitJobPre` (the `call-format` diagnostic itself is AL.Rules.ruleWorkflowCall's) -/
def wcJob (env : Env) (c : Cache) (j : Job) : Cache × List AL.Rules.Diag :=
  match j.workflowCall with
  | none => (c, [])
  | some call =>
    match call.uses with
    | none => (c, [])
    | some u => wcUses env c call u

/-! ### rule_expression.go: where it asks for an interface -/

def tyOf : CallMeta.Ty → AL.Ty
  | .any => .any | .bool => .bool | .number => .number | .string => .string

/-- `getWorkflowCallOutputsType` -/
def outputsTy (m : Meta) : AL.Ty := .obj (m.outputs.foldl (fun ps o => AL.Ty.setProp o.1 .string ps) []) none

structure NeedsOut where
  cache : Cache
  errs : List AL.RuleExpr.Diag := []
  /-- needed job id ↦ the type of its `outputs` when the needed job calls a workflow with a known interface -/
  outs : List (String × AL.Ty) := []

/-- what a look-up contributes to the expression rule: the callee's defect at `u` -/
def exFound (f : Found) (u : Str) : List AL.RuleExpr.Diag :=
  match f with
  | .err code => [⟨u.pos, code, [u.value]⟩]
  | _ => []

def outsFound (f : Found) (i : String) : List (String × AL.Ty) :=
  match f with
  | .found m => [(i, outputsTy m)]
  | _ => []

/-- one needed job of `calcNeedsType`: `getWorkflowCallOutputsType` when it calls a workflow -/
def needsStep (env : Env) (lower : String → String) (jobs : List (String × Job)) (job : Job)
    (acc : NeedsOut × List String) (id : Str) : NeedsOut × List String :=
  let i := lower id.value
  if i = lower job.id.value then acc
  else if acc.2.contains i then acc
  else match AL.RuleExpr.lookupJob i jobs with
    | none => acc
    | some j =>
      match j.workflowCall with
      | none => (acc.1, acc.2 ++ [i])
      | some call =>
        match call.uses with
        | none => (acc.1, acc.2 ++ [i])
        | some u =>
          ({ cache := (find env acc.1.cache u.value).1
             errs := acc.1.errs ++ exFound (find env acc.1.cache u.value).2 u
             outs := acc.1.outs ++ outsFound (find env acc.1.cache u.value).2 i }, acc.2 ++ [i])

/-- the look-ups of `calcNeedsType` for one job, in the order of its `needs` -/
def needsLookups (env : Env) (lower : String → String) (jobs : List (String × Job)) (job : Job) (c : Cache) : NeedsOut :=
  ((job.needs.getD []).foldl (needsStep env lower jobs job) (({ cache := c } : NeedsOut), ([] : List String))).1

structure CallOut where
  cache : Cache
  errs : List AL.RuleExpr.Diag := []
  /-- the declared inputs (id ↦ name, type) when `checkWorkflowCall` got an interface -/
  inputs : Option (List (String × (String × AL.Ty))) := none

def inputsFound (f : Found) : Option (List (String × (String × AL.Ty))) :=
  match f with
  | .found m => some (m.inputs.map fun e => (e.1, (e.2.name, tyOf e.2.ty)))
  | _ => none

/-- the look-up of `checkWorkflowCall` for one job -/
def callLookup (env : Env) (job : Job) (c : Cache) : CallOut :=
  match job.workflowCall with
  | none => { cache := c }
  | some call =>
    match call.uses with
    | none => { cache := c }
    | some u =>
      { cache := (find env c u.value).1, errs := exFound (find env c u.value).2 u, inputs := inputsFound (find env c u.value).2 }

/-! ### one file: the jobs in source order, both rules per job -/

structure JobView where
  wc : List AL.Rules.Diag := []
  exprErrs : List AL.RuleExpr.Diag := []
  outs : List (String × AL.Ty) := []
  inputs : Option (List (String × (String × AL.Ty))) := none

def simulateJobs (env : Env) (lower : String → String) (jobs : List (String × Job)) :
    List (String × Job) → Cache → List (String × JobView)
  | [], _ => []
  | (_, j) :: rest, c =>
    let w := wcJob env c j
    let n := needsLookups env lower jobs j w.1
    let k := callLookup env j n.cache
    (j.id.value, { wc := w.2, exprErrs := n.errs ++ k.errs, outs := n.outs, inputs := k.inputs }) ::
      simulateJobs env lower jobs rest k.cache

def simulate (env : Env) (lower : String → String) (w : Workflow) : List (String × JobView) :=
  simulateJobs env lower (w.jobs.getD []) (w.jobs.getD []) (initialCache env w)

/-- what the expression rule is told about the project -/
def viewOf (env : Env) (lower : String → String) (isNumber : String → Bool) (w : Workflow) : AL.RuleExpr.ProjView :=
  { jobs := (simulate env lower w).map fun e => (e.1, { outs := e.2.outs, inputs := e.2.inputs })
    isNumber := isNumber }

/-- rule_expression.go for a file linted inside a project: the rule under the project's view, plus the callee defects
its own look-ups ran into -/
def exprRule (env : Env) (lower : String → String) (isNum : String → Bool) (w : Workflow) : List AL.RuleExpr.Diag :=
  AL.RuleExpr.rule lower isNum w (viewOf env lower isNum w) ++ (simulate env lower w).flatMap (·.2.exprErrs)

/-- what rule_workflow_call.go adds inside a project (the format diagnostic is AL.Rules.ruleWorkflowCall's) -/
def wcRule (env : Env) (lower : String → String) (w : Workflow) : List AL.Rules.Diag :=
  (simulate env lower w).flatMap (·.2.wc)

/-- `Linter.check` (parser + the modelled rules other than expression) for a file linted inside a project -/
def lint (cfg : AL.PW.Cfg) (isNum urlOk : String → Bool) (env : Env) (doc : AL.Yaml.Node) : List AL.Rules.Diag :=
  let r := AL.PW.parse cfg doc
  AL.Rules.stableSort (r.2.map AL.Rules.ofPErr ++ AL.Rules.rules cfg.lower isNum urlOk r.1 ++ wcRule env cfg.lower r.1)

end AL.ProjCall
