import AL.Model.Parser
import AL.Model.Sema
/-
  From the parser's tree to the checker's: names are folded exactly where expr_parser.go folds them
  (`strings.ToLower` on variable and property names); callee names keep their spelling.
-/
namespace AL
open AL.Parse AL.Sema

def symsToString (l : List Sym) : String := String.ofList (l.map fun s => Char.ofNat s.r)

def cmpConv : Parse.CmpKind → Sema.CmpOp
  | .less => .less | .lessEq => .lessEq | .greater => .greater | .greaterEq => .greaterEq | .eq => .eq | .notEq => .notEq

mutual
def toE (lower : String → String) : Parse.Expr → Sema.E
  | .null => .null
  | .bool _ => .bool
  | .int _ => .num
  | .float _ => .num
  | .str v => .str (symsToString v)
  | .var n => .var (lower (symsToString n))
  | .call c args => .call (symsToString c) (toEs lower args)
  | .objDeref r p => .objDeref (toE lower r) (lower (symsToString p))
  | .arrDeref r => .arrDeref (toE lower r)
  | .index r i => .index (toE lower r) (toE lower i)
  | .not e => .not (toE lower e)
  | .cmp k l r => .cmp (cmpConv k) (toE lower l) (toE lower r)
  | .logical .and l r => .logical .and (toE lower l) (toE lower r)
  | .logical .or l r => .logical .or (toE lower l) (toE lower r)
def toEs (lower : String → String) : List Parse.Expr → List Sema.E
  | [] => []
  | e :: es => toE lower e :: toEs lower es
end

end AL
