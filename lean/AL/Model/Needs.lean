/-
  Model of rule_job_needs.go: `VisitJobPre` (needs normalisation), the resolution loop of
  `VisitWorkflowPost`, `detectFirstCycle` / `detectCyclicNode` (DFS with three colours),
  `collectCycle` and the cycle-printing loop.

  Go maps are association lists; the iteration order of `for _, v := range nodes` is the parameter
  `order` (a list of node indices). Nodes are identified by their index in `Graph.nodes`.
-/
namespace AL.Needs

structure P where
  line : Nat
  col  : Nat
deriving Repr, DecidableEq, Inhabited

def P.isBefore (a b : P) : Bool := a.line < b.line || (a.line = b.line && a.col < b.col)

inductive Status where | new | active | finished
deriving Repr, DecidableEq, Inhabited

/-- `jobNode` after resolution: `resolved` holds node indices. -/
structure Node where
  id       : String
  pos      : P
  resolved : List Nat
deriving Repr, Inhabited

abbrev Graph := List Node

def Graph.succ (g : Graph) (v : Nat) : List Nat := (g[v]?.map (·.resolved)).getD []

def setStatus (st : List Status) (v : Nat) (s : Status) : List Status := st.set v s

def countNew (st : List Status) : Nat := (st.filter (· = .new)).length

/-- `detectCyclicNode`, with the loop over `v.resolved` made explicit (`ws` = successors not yet
examined). `fuel` bounds the recursion depth (one unit per `detectCyclicNode` activation); the
theorem `dfs_fuel_enough` in the lemmas shows that `countNew st` is enough, so no answer is ever an
artefact of fuel running out. Returns the back edge `(from, to)` if any, and the new colouring. -/
def visitList (g : Graph) : Nat → List Status → Nat → List Nat → Option (Nat × Nat) × List Status
  | _, st, v, [] => (none, setStatus st v .finished)
  | fuel, st, v, w :: ws =>
    match st[w]? with
    | some .active => (some (v, w), st)
    | some .new =>
      match fuel with
      | 0 => (none, st)  -- unreachable when fuel ≥ countNew st (see lemma)
      | fuel' + 1 =>
        let st1 := setStatus st w .active
        match visitList g fuel' st1 w (g.succ w) with
        | (some e, st2) => (some e, st2)
        | (none, st2) => visitList g (fuel' + 1) st2 v ws
    | _ => visitList g fuel st v ws
termination_by fuel _ _ ws => (fuel, ws.length)

def detectCyclicNode (g : Graph) (fuel : Nat) (st : List Status) (v : Nat) : Option (Nat × Nat) × List Status :=
  visitList g fuel (setStatus st v .active) v (g.succ v)

/-- `detectFirstCycle` with the map iteration order given by `order`. -/
def detectFirstCycle (g : Graph) : List Nat → List Status → Option (Nat × Nat) × List Status
  | [], st => (none, st)
  | v :: rest, st =>
    if st[v]? = some .new then
      match detectCyclicNode g g.length st v with
      | (some e, st') => (some e, st')
      | (none, st') => detectFirstCycle g rest st'
    else detectFirstCycle g rest st

/-- Go's `edges map[*jobNode]*jobNode` as an association list (latest binding first). -/
abbrev Edges := List (Nat × Nat)

def Edges.get? (e : Edges) (k : Nat) : Option Nat := (e.find? (·.1 = k)).map (·.2)
def Edges.put (e : Edges) (k v : Nat) : Edges := (k, v) :: e.filter (·.1 ≠ k)
def Edges.del (e : Edges) (k : Nat) : Edges := e.filter (·.1 ≠ k)

/-- `collectCycle`, loop over `src.resolved` explicit; `fuel` bounds the recursion depth. -/
def collectList (g : Graph) (st : List Status) : Nat → Nat → List Nat → Edges → Bool × Edges
  | _, _, [], edges => (false, edges)
  | fuel, src, dest :: ds, edges =>
    if st[dest]? ≠ some .active then collectList g st fuel src ds edges
    else
      let edges1 := edges.put src dest
      if (edges1.get? dest).isSome then (true, edges1)
      else
        match fuel with
        | 0 => (false, edges1)
        | fuel' + 1 =>
          match collectList g st fuel' dest (g.succ dest) edges1 with
          | (true, e2) => (true, e2)
          | (false, e2) => collectList g st (fuel' + 1) src ds (e2.del src)
termination_by fuel _ ds _ => (fuel, ds.length)

def collectCycle (g : Graph) (st : List Status) (src : Nat) (edges : Edges) : Bool × Edges :=
  collectList g st g.length src (g.succ src) edges

def posOf (g : Graph) (v : Nat) : P := (g[v]?.map (·.pos)).getD ⟨0, 0⟩
def idOf (g : Graph) (v : Nat) : String := (g[v]?.map (·.id)).getD ""

/-- `for n := range edges { if n.pos.IsBefore(start.pos) { start = n } }` — `keys` is the map's
iteration order. -/
def pickStart (g : Graph) (start : Nat) (keys : List Nat) : Nat :=
  keys.foldl (fun s n => if (posOf g n).isBefore (posOf g s) then n else s) start

/-- The printing loop `for { … if from == start { break } }`; the path printed after `start`.
`fuel` = number of bindings + 1 (see lemma `printLoop_returns`). -/
def printLoop (edges : Edges) (start : Nat) : Nat → Nat → List Nat
  | 0, _ => []
  | fuel + 1, to =>
    -- msg += " -> " + to.id ; from, to = to, edges[to] ; if from == start break
    if to = start then [to]
    else match edges.get? to with
      | some nxt => to :: printLoop edges start fuel nxt
      | none => [to]  -- Go: nil dereference (unreachable: every node on the cycle has a binding)

structure CycleDiag where
  pos  : P
  path : List String   -- ids, first = last
deriving Repr, DecidableEq

/-- The cyclic-dependency part of `VisitWorkflowPost` for a resolved graph; `order` is the iteration
order of `rule.nodes`, `keyOrder` chooses the iteration order of `edges`. -/
def cycleDiag (g : Graph) (order : List Nat) : Option CycleDiag :=
  let st0 := g.map fun _ => Status.new
  match detectFirstCycle g order st0 with
  | (none, _) => none
  | (some (frm, to), st) =>
    let edges0 : Edges := [(frm, to)]
    let edges := (collectCycle g st to edges0).2
    let start := pickStart g frm (edges.map (·.1))
    match edges.get? start with
    | none => none
    | some first =>
      some { pos := posOf g start, path := idOf g start :: (printLoop edges start (edges.length + 1) first).map (idOf g) }

/-! ### `VisitJobPre` and the resolution loop -/

structure NeedRef where
  value : String
  pos   : P
deriving Repr, Inhabited

structure JobIn where
  idValue : String
  idPos   : P
  jobPos  : P
  needs   : List NeedRef
deriving Repr, Inhabited

inductive Diag where
  | dupNeeds (pos : P) (value : String)
  | dupJob (pos : P) (idValue : String) (prev : P)
  | undefined (pos : P) (id dep : String)
  | cyclic (d : CycleDiag)
deriving Repr, DecidableEq

/-- needs normalisation of `VisitJobPre`: lower-cased, duplicates reported and dropped, empty dropped. -/
def normNeeds (lower : String → String) : List NeedRef → List String → List String × List Diag
  | [], acc => (acc, [])
  | j :: rest, acc =>
    let id := lower j.value
    if acc.contains id then
      let (a, d) := normNeeds lower rest acc
      (a, .dupNeeds j.pos j.value :: d)
    else if id ≠ "" then normNeeds lower rest (acc ++ [id])
    else normNeeds lower rest acc

/-- `rule.nodes` after all `VisitJobPre` calls: assoc list id ↦ (pos, needs), later jobs override. -/
structure RawNode where
  id    : String
  pos   : P
  needs : List String
deriving Repr, Inhabited

def visitJobs (lower : String → String) : List JobIn → List RawNode → List RawNode × List Diag
  | [], nodes => (nodes, [])
  | j :: rest, nodes =>
    let (needs, d1) := normNeeds lower j.needs []
    let id := lower j.idValue
    if id = "" then
      let (n, d) := visitJobs lower rest nodes
      (n, d1 ++ d)
    else
      let d2 := match nodes.find? (·.id = id) with
        | some prev => [Diag.dupJob j.jobPos j.idValue prev.pos]
        | none => []
      let node : RawNode := { id := id, pos := j.idPos, needs := needs }
      let nodes' := if nodes.any (·.id = id) then nodes.map (fun n => if n.id = id then node else n) else nodes ++ [node]
      let (n, d) := visitJobs lower rest nodes'
      (n, d1 ++ d2 ++ d)

def indexOf? (nodes : List RawNode) (id : String) : Option Nat :=
  let i := nodes.findIdx (·.id = id)
  if i < nodes.length then some i else none

/-- Resolution loop: undefined-dependency diagnostics (in node order) and the resolved graph. -/
def resolve (nodes : List RawNode) : Graph × List Diag :=
  let g := nodes.map fun n => ({ id := n.id, pos := n.pos, resolved := n.needs.filterMap (indexOf? nodes) } : Node)
  let d := nodes.flatMap fun n => (n.needs.filter fun dep => (indexOf? nodes dep).isNone).map fun dep => Diag.undefined n.pos n.id dep
  (g, d)

/-- The whole rule for a job list, with the map iteration order `order` (indices into the node list). -/
def check (lower : String → String) (jobs : List JobIn) (order : List Nat) : List Diag :=
  let (nodes, d0) := visitJobs lower jobs []
  let (g, d1) := resolve nodes
  if !d1.isEmpty then d0 ++ d1
  else match cycleDiag g order with
    | some c => d0 ++ [.cyclic c]
    | none => d0

end AL.Needs
