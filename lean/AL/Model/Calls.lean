/-
  Model of the interface checks of rule_action.go (`checkAction`) and rule_workflow_call.go
  (`checkWorkflowCallUsesLocal`): supplied names vs declared names, required ones, `secrets: inherit`.
  Interfaces are association lists id ↦ (name, required) with lower-case ids (Go maps).
-/
namespace AL.Calls

structure Decl where
  id       : String
  name     : String
  required : Bool
deriving Repr, DecidableEq, Inhabited

inductive Diag where
  | undefinedInput (id : String)
  | missingInput (name : String)
  | undefinedSecret (id : String)
  | missingSecret (name : String)
deriving Repr, DecidableEq, Inhabited

def insertS (s : String) : List String → List String
  | [] => [s]
  | x :: rest => if s ≤ x then s :: x :: rest else x :: insertS s rest

def sortS (l : List String) : List String := l.foldl (fun acc s => insertS s acc) []

/-- `checkAction`: `supplied` = ids of `with:` (map iteration order is irrelevant: each reports at its own
position); missing required inputs are reported in sorted id order. `skipInputs` never reaches this code. -/
def checkAction (decls : List Decl) (supplied : List String) : List Diag :=
  (supplied.filter fun s => !(decls.any (·.id = s))).map .undefinedInput ++
  ((sortS (decls.map (·.id))).filterMap fun id =>
    match decls.find? (·.id = id) with
    | some d => if d.required && !supplied.contains id then some (.missingInput d.name) else none
    | none => none)

/-- `checkWorkflowCallUsesLocal` -/
def checkCall (inputs secrets : List Decl) (withIds secretIds : List String) (inherit : Bool) : List Diag :=
  ((sortS (inputs.map (·.id))).filterMap fun id =>
    match inputs.find? (·.id = id) with
    | some d => if d.required && !withIds.contains id then some (.missingInput d.name) else none
    | none => none) ++
  (withIds.filter fun s => !(inputs.any (·.id = s))).map .undefinedInput ++
  (if inherit then [] else
    ((sortS (secrets.map (·.id))).filterMap fun id =>
      match secrets.find? (·.id = id) with
      | some d => if d.required && !secretIds.contains id then some (.missingSecret d.name) else none
      | none => none) ++
    (secretIds.filter fun s => !(secrets.any (·.id = s))).map .undefinedSecret)

/-- how `Required` is derived from a local `action.yml` / reusable workflow: declared required and no default -/
def effectiveRequired (declared hasDefault : Bool) : Bool := declared && !hasDefault

end AL.Calls
