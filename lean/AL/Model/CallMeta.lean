import AL.Model.ParseWf
/-
  reusable_workflow.go: the two derivations of a reusable workflow's interface.

  * `fromAst`  — `WriteWorkflowCallEvent`: from the `WorkflowCallEvent` of the AST (the called workflow was linted in the
                 same run),
  * `fromYaml` — `parseReusableWorkflowMetadata` + the `UnmarshalYAML` methods: from a re-parse of the file; the decoding
                 `gopkg.in/yaml.v3` does on the way (struct fields by exact key, typed `bool` / `string` / `*string`
                 targets, unique keys of known fields, null → zero value) is modelled as far as these types use it.

  Go maps are association lists; `put` is `m[k] = v`. An alias node and a `!!binary` scalar make the model answer
  `unsupported` (the model does not follow `yaml.Node.Alias` and has no base64 decoder); a `<<` merge key likewise.
-/
namespace AL.CallMeta
open AL.Yaml AL.Ast AL.PW

inductive Ty where
  | any | bool | number | string
deriving Repr, DecidableEq, Inhabited

structure Input where
  name : String
  required : Bool
  ty : Ty
deriving Repr, DecidableEq

structure Secret where
  name : String
  required : Bool
deriving Repr, DecidableEq

structure Meta where
  inputs : List (String × Input) := []
  outputs : List (String × String) := []
  secrets : List (String × Secret) := []
deriving Repr, DecidableEq

/-- `m[k] = v` -/
def put {α : Type} (m : List (String × α)) (k : String) (v : α) : List (String × α) :=
  if m.any (·.1 = k) then m.map (fun e => if e.1 = k then (k, v) else e) else m ++ [(k, v)]

/-! ### from the AST: `WriteWorkflowCallEvent` -/

def tyOfAst : CallInputType → Ty
  | .boolean => .bool
  | .number => .number
  | .string => .string
  | .invalid => .any

def boolOf (b : Option BoolV) : Bool :=
  match b with
  | some v => v.value
  | none => false

def inputOfAst (i : CallInput) : Input :=
  ⟨i.name.value, boolOf i.required && i.dflt.isNone, tyOfAst i.type⟩

def fromAst (inputs : Option (List CallInput)) (secrets : Option (List (String × CallSecret)))
    (outputs : Option (List (String × CallOutput))) : Meta :=
  { inputs := (inputs.getD []).foldl (fun m i => put m i.id (inputOfAst i)) []
    outputs := (outputs.getD []).foldl (fun m o => put m o.1 o.2.name.value) []
    secrets := (secrets.getD []).foldl (fun m s => put m s.1 ⟨s.2.name.value, boolOf s.2.required⟩) [] }

def fromEvent : Event → Option Meta
  | .call i s o _ => some (fromAst i s o)
  | _ => none

/-- `RuleWorkflowCall.VisitWorkflowPre`: the first `workflow_call` event of `on:` is written to the cache -/
def fromEvents : List Event → Option Meta
  | [] => none
  | e :: rest => match fromEvent e with
    | some m => some m
    | none => fromEvents rest

/-! ### from the file: yaml.v3 decoding -/

inductive E where
  | decode        -- yaml.v3 / UnmarshalYAML returns an error
  | unsupported   -- alias, !!binary, merge key: outside the model
  | notFound      -- no `on:` / no `workflow_call` in it
deriving Repr, DecidableEq

abbrev D := Except E

def yesWords : List String := ["y", "Y", "yes", "Yes", "YES", "on", "On", "ON"]
def noWords : List String := ["n", "N", "no", "No", "NO", "off", "Off", "OFF"]

/-- the tags whose plain scalars `resolve` turns into something that is not a string -/
def nonStringTags : List String := ["!!int", "!!float", "!!timestamp"]

/-- decoding into a `bool` -/
def decBool (n : Node) : D Bool :=
  match n.kind with
  | .alias => .error .unsupported
  | .scalar =>
    if n.tag = "!!null" then .ok false
    else if n.tag = "!!binary" then .error .unsupported
    else if n.tag = "!!bool" then
      if n.value ∈ ["true", "True", "TRUE"] then .ok true
      else if n.value ∈ ["false", "False", "FALSE"] then .ok false
      else .error .unsupported      -- yaml.v3 does not produce such a node
    else if n.tag ∈ nonStringTags then .error .decode
    else if n.value ∈ yesWords then .ok true
    else if n.value ∈ noWords then .ok false
    else .error .decode
  | _ => .error .decode

/-- decoding into a `string` -/
def decStr (n : Node) : D String :=
  match n.kind with
  | .alias => .error .unsupported
  | .scalar =>
    if n.tag = "!!null" then .ok ""
    else if n.tag = "!!binary" then .error .unsupported
    else .ok n.value
  | _ => .error .decode

/-- decoding into a `*string` -/
def decStrPtr (n : Node) : D (Option String) :=
  if n.isNull then .ok none else (decStr n).map some

def isMerge (k : Node) : Bool :=
  k.kind = .scalar && k.value = "<<" && (k.tag = "" || k.tag = "!" || k.tag = "!!merge")

/-- `d.mapping` with `uniqueKeys`: two keys of the same kind and value, whether they name a field or not -/
def hasDupKey : List (Node × Node) → Bool
  | [] => false
  | (k, _) :: rest => rest.any (fun q => q.1.kind = k.kind && q.1.value = k.value) || hasDupKey rest

/-- `d.mappingStruct`: the loop over the keys of a mapping that fills a struct; `set st name v` decodes the value node
`v` into the field `name`. A known field given twice is an error, other keys are skipped (after decoding the key into a
string) -/
def structLoop {σ : Type} (fields : List String) (set : σ → String → Node → D σ) :
    List (Node × Node) → List String → σ → D σ
  | [], _, st => .ok st
  | (k, v) :: rest, done, st =>
    if isMerge k then .error .unsupported
    else match decStr k with
      | .error e => .error e
      | .ok name =>
        if name ∈ fields then
          if name ∈ done then .error .decode
          else match set st name v with
            | .error e => .error e
            | .ok st' => structLoop fields set rest (name :: done) st'
        else structLoop fields set rest done st

/-- decoding a node into a struct whose zero value is `init` -/
def structDecode {σ : Type} (fields : List String) (set : σ → String → Node → D σ) (init : σ) (n : Node) : D σ :=
  match n.kind with
  | .alias => .error .unsupported
  | .mapping => if hasDupKey (pairs n.content) then .error .decode else structLoop fields set (pairs n.content) [] init
  | .scalar => if n.tag = "!!null" then .ok init else .error .decode
  | _ => .error .decode

def tyOfString : String → Ty
  | "boolean" => .bool
  | "number" => .number
  | "string" => .string
  | _ => .any

/-- the anonymous struct `metadata` of `ReusableWorkflowMetadataInput.UnmarshalYAML` -/
structure InSt where
  required : Bool := false
  dflt : Option String := none
  ty : String := ""

def setInput (st : InSt) (name : String) (v : Node) : D InSt :=
  match name with
  | "required" => (decBool v).map fun b => { st with required := b }
  | "default" => (decStrPtr v).map fun d => { st with dflt := d }
  | "type" => (decStr v).map fun t => { st with ty := t }
  | _ => .ok st

/-- `ReusableWorkflowMetadataInput.UnmarshalYAML` (not called for a null node: all fields zero, `Type` then set to any) -/
def decInput (v : Node) : D (Bool × Ty) :=
  (structDecode ["required", "default", "type"] setInput {} v).map fun st =>
    (st.required && st.dflt.isNone, tyOfString st.ty)

def decInputsLoop (cfg : Cfg) : List (Node × Node) → List (String × Input) → D (List (String × Input))
  | [], m => .ok m
  | (k, v) :: rest, m =>
    match decInput v with
    | .error e => .error e
    | .ok r => decInputsLoop cfg rest (put m (cfg.lower k.value) ⟨k.value, r.1, r.2⟩)

/-- `ReusableWorkflowMetadataInputs.UnmarshalYAML` -/
def decInputs (cfg : Cfg) (n : Node) : D (List (String × Input)) :=
  match n.kind with
  | .alias => .error .unsupported
  | .mapping => decInputsLoop cfg (pairs n.content) []
  | _ => .error .decode

/-- `ReusableWorkflowMetadataSecret`: fields `name` (no tag: the lower-cased field name) and `required` -/
structure SecSt where
  name : String := ""
  required : Bool := false

def setSecret (st : SecSt) (name : String) (v : Node) : D SecSt :=
  match name with
  | "name" => (decStr v).map fun s => { st with name := s }
  | "required" => (decBool v).map fun b => { st with required := b }
  | _ => .ok st

/-- decoding a `ReusableWorkflowMetadataSecret`; `Name` is overwritten with the key afterwards -/
def decSecret (v : Node) : D Bool :=
  (structDecode ["name", "required"] setSecret {} v).map (·.required)

def decSecretsLoop (cfg : Cfg) : List (Node × Node) → List (String × Secret) → D (List (String × Secret))
  | [], m => .ok m
  | (k, v) :: rest, m =>
    match decSecret v with
    | .error e => .error e
    | .ok r => decSecretsLoop cfg rest (put m (cfg.lower k.value) ⟨k.value, r⟩)

/-- `ReusableWorkflowMetadataSecrets.UnmarshalYAML` -/
def decSecrets (cfg : Cfg) (n : Node) : D (List (String × Secret)) :=
  match n.kind with
  | .alias => .error .unsupported
  | .mapping => decSecretsLoop cfg (pairs n.content) []
  | _ => .error .decode

/-- `ReusableWorkflowMetadataOutputs.UnmarshalYAML`: the keys only -/
def decOutputs (cfg : Cfg) (n : Node) : D (List (String × String)) :=
  match n.kind with
  | .alias => .error .unsupported
  | .mapping => .ok ((pairs n.content).foldl (fun m kv => put m (cfg.lower kv.1.value) kv.1.value) [])
  | _ => .error .decode

/-- a field with an `UnmarshalYAML` method: the method is not called for a null node, the field gets its zero value -/
def viaUnmarshaler {α : Type} (dec : Node → D (List α)) (n : Node) : D (List α) :=
  if n.isNull then .ok [] else dec n

def setMeta (cfg : Cfg) (st : Meta) (name : String) (v : Node) : D Meta :=
  match name with
  | "inputs" => (viaUnmarshaler (decInputs cfg) v).map fun i => { st with inputs := i }
  | "outputs" => (viaUnmarshaler (decOutputs cfg) v).map fun o => { st with outputs := o }
  | "secrets" => (viaUnmarshaler (decSecrets cfg) v).map fun s => { st with secrets := s }
  | _ => .ok st

/-- decoding the value of the `workflow_call:` key into `ReusableWorkflowMetadata` -/
def fromYaml (cfg : Cfg) (n : Node) : D Meta :=
  structDecode ["inputs", "outputs", "secrets"] (setMeta cfg) {} n

def findCallKey (cfg : Cfg) : List (Node × Node) → Option Node
  | [] => none
  | (k, v) :: rest => if cfg.lower k.value = "workflow_call" then some v else findCallKey cfg rest

/-- `parseReusableWorkflowMetadata` from the value of `on:` -/
def fromOn (cfg : Cfg) (on : Node) : D Meta :=
  match on.kind with
  | .mapping =>
    match findCallKey cfg (pairs on.content) with
    | some v => fromYaml cfg v
    | none => .error .notFound
  | .scalar => if cfg.lower on.value = "workflow_call" then .ok {} else .error .notFound
  | .sequence => if on.content.any (fun c => cfg.lower c.value = "workflow_call") then .ok {} else .error .notFound
  | _ => .error .notFound

/-- `yaml.Unmarshal(src, &struct{ On yaml.Node })` then `parseReusableWorkflowMetadata`: from the document node. A field
of type `yaml.Node` takes the value node as it is (also an alias or a null) -/
def fromDoc (cfg : Cfg) (doc : Node) : D Meta :=
  match doc.content with
  | [] => .error .notFound
  | root :: _ =>
    match structDecode ["on"] (fun (st : Option Node) name v => if name = "on" then .ok (some v) else .ok st) none root with
    | .error e => .error e
    | .ok none => .error .notFound
    | .ok (some on) => fromOn cfg on

/-- the AST side for a whole document -/
def fromDocAst (cfg : Cfg) (doc : Node) : Option Meta :=
  fromEvents ((parse cfg doc).1.on.getD [])


/-! ### the domain on which the two derivations are proved to agree (AL.Props.C10Meta), as a computable test -/

def nullWords : List String := ["", "~", "null", "Null", "NULL"]
def boolWords : List String := ["true", "True", "TRUE", "false", "False", "FALSE"]

/-- what yaml.v3 guarantees about a node it builds, minus alias and `!!binary` -/
def saneNodeB (n : Node) : Bool :=
  (n.kind != .alias) && (n.tag != "!!binary") && (n.kind != .scalar || n.content.isEmpty) &&
  (n.kind == .scalar || n.value == "") && (n.tag != "!!null" || nullWords.contains n.value) &&
  (n.tag != "!!bool" || boolWords.contains n.value)

def saneB : Nat → Node → Bool
  | 0, n => saneNodeB n
  | d + 1, n => saneNodeB n && (pairs n.content).all fun q => saneB d q.1 && saneB d q.2

/-- no `required:` of an input / secret is a `!!str` scalar (a `${{ }}` placeholder) -/
def noPlaceholderB (n : Node) : Bool :=
  (pairs n.content).all fun sec => (pairs sec.2.content).all fun ent => (pairs ent.2.content).all fun a =>
    a.1.value != "required" || a.2.tag != "!!str"

/-- the value of `on: → workflow_call:` (exact spelling) of a document, if the document has that shape -/
def findKey (name : String) : List (Node × Node) → Option Node
  | [] => none
  | (k, v) :: rest => if k.kind = .scalar && k.value = name then some v else findKey name rest

def callNode (doc : Node) : Option Node :=
  match doc.content with
  | [] => none
  | root :: _ =>
    match findKey "on" (pairs root.content) with
    | none => none
    | some on => findKey "workflow_call" (pairs on.content)

/-- the hypotheses of the document-level theorem (AL.Props.C10Meta.document_interface_agrees_checked) -/
def onOkB (cfg : Cfg) (on : Node) : Bool :=
  (pairs on.content).all fun q =>
    (cfg.lower q.1.value != "workflow_call" || q.1.value == "workflow_call") &&
    (q.1.value != "workflow_call" || (saneB 3 q.2 && noPlaceholderB q.2))

def docHypB (cfg : Cfg) (doc : Node) : Bool :=
  match doc.content with
  | [] => false
  | root :: _ => (pairs root.content).all fun q => saneNodeB q.1 && (q.1.value != "on" || onOkB cfg q.2)

end AL.CallMeta
