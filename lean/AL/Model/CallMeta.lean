import AL.Model.ParseWf
/-
  reusable_workflow.go: the two derivations of a reusable workflow's interface.

  * `fromAst`  — `WriteWorkflowCallEvent`: from the `WorkflowCallEvent` of the AST (the called workflow was linted in the
                 same run),
  * `fromYaml` — `parseReusableWorkflowMetadata` + the `UnmarshalYAML` methods: from a re-parse of the file; the decoding
                 `gopkg.in/yaml.v3` does on the way (struct fields by exact key, typed `bool` / `string` / `*string`
                 targets, unique keys of known fields, null → zero value) is modelled as far as these types use it.

  Go maps are association lists; `put` is `m[k] = v`. An alias node and a `!!binary` scalar make the model answer
  `unsupported` (the model does not follow `yaml.Node.Alias` and has no base64 decoder); a `<<` merge key likewise.
-/
namespace AL.CallMeta
open AL.Yaml AL.Ast AL.PW

inductive Ty where
  | any | bool | number | string
deriving Repr, DecidableEq, Inhabited

structure Input where
  name : String
  required : Bool
  ty : Ty
deriving Repr, DecidableEq

structure Secret where
  name : String
  required : Bool
deriving Repr, DecidableEq

structure Meta where
  inputs : List (String × Input) := []
  outputs : List (String × String) := []
  secrets : List (String × Secret) := []
deriving Repr, DecidableEq

/-- `m[k] = v` -/
def put {α : Type} (m : List (String × α)) (k : String) (v : α) : List (String × α) :=
  if m.any (·.1 = k) then m.map (fun e => if e.1 = k then (k, v) else e) else m ++ [(k, v)]

/-! ### from the AST: `WriteWorkflowCallEvent` -/

def tyOfAst : CallInputType → Ty
  | .boolean => .bool
  | .number => .number
  | .string => .string
  | .invalid => .any

def boolOf (b : Option BoolV) : Bool :=
  match b with
  | some v => v.value
  | none => false

def inputOfAst (i : CallInput) : Input :=
  ⟨i.name.value, boolOf i.required && i.dflt.isNone, tyOfAst i.type⟩

def fromAst (inputs : Option (List CallInput)) (secrets : Option (List (String × CallSecret)))
    (outputs : Option (List (String × CallOutput))) : Meta :=
  { inputs := (inputs.getD []).foldl (fun m i => put m i.id (inputOfAst i)) []
    outputs := (outputs.getD []).foldl (fun m o => put m o.1 o.2.name.value) []
    secrets := (secrets.getD []).foldl (fun m s => put m s.1 ⟨s.2.name.value, boolOf s.2.required⟩) [] }

def fromEvent : Event → Option Meta
  | .call i s o _ => some (fromAst i s o)
  | _ => none

/-- `RuleWorkflowCall.VisitWorkflowPre`: the first `workflow_call` event of `on:` is written to the cache -/
def fromEvents : List Event → Option Meta
  | [] => none
  | e :: rest => match fromEvent e with
    | some m => some m
    | none => fromEvents rest

/-! ### from the file: yaml.v3 decoding -/

inductive E where
  | decode        -- yaml.v3 / UnmarshalYAML returns an error
  | unsupported   -- alias, !!binary, merge key: outside the model
  | notFound      -- no `on:` / no `workflow_call` in it
deriving Repr, DecidableEq

abbrev D := Except E

def yesWords : List String := ["y", "Y", "yes", "Yes", "YES", "on", "On", "ON"]
def noWords : List String := ["n", "N", "no", "No", "NO", "off", "Off", "OFF"]

/-- the tags whose plain scalars `resolve` turns into something that is not a string -/
def nonStringTags : List String := ["!!int", "!!float", "!!timestamp"]

/-- decoding into a `bool` -/
def decBool (n : Node) : D Bool :=
  match n.kind with
  | .alias => .error .unsupported
  | .scalar =>
    if n.tag = "!!null" then .ok false
    else if n.tag = "!!binary" then .error .unsupported
    else if n.tag = "!!bool" then
      if n.value ∈ ["true", "True", "TRUE"] then .ok true
      else if n.value ∈ ["false", "False", "FALSE"] then .ok false
      else .error .unsupported      -- yaml.v3 does not produce such a node
    else if n.tag ∈ nonStringTags then .error .decode
    else if n.value ∈ yesWords then .ok true
    else if n.value ∈ noWords then .ok false
    else .error .decode
  | _ => .error .decode

/-- decoding into a `string` -/
def decStr (n : Node) : D String :=
  match n.kind with
  | .alias => .error .unsupported
  | .scalar =>
    if n.tag = "!!null" then .ok ""
    else if n.tag = "!!binary" then .error .unsupported
    else .ok n.value
  | _ => .error .decode

/-- decoding into a `*string` -/
def decStrPtr (n : Node) : D (Option String) :=
  if n.isNull then .ok none else (decStr n).map some

def isMerge (k : Node) : Bool :=
  k.kind = .scalar && k.value = "<<" && (k.tag = "" || k.tag = "!" || k.tag = "!!merge")

/-- `d.mappingStruct`: the (field name, value node) pairs of the known fields, in document order; a known field given
twice is an error, other keys are skipped (after decoding the key into a string) -/
def structLoop (fields : List String) : List (Node × Node) → List String → D (List (String × Node))
  | [], _ => .ok []
  | (k, v) :: rest, done =>
    if isMerge k then .error .unsupported
    else match decStr k with
      | .error e => .error e
      | .ok name =>
        if name ∈ fields then
          if name ∈ done then .error .decode
          else (structLoop fields rest (name :: done)).map ((name, v) :: ·)
        else structLoop fields rest done

/-- `d.mapping` with `uniqueKeys`: two keys of the same kind and value, whether they name a field or not -/
def hasDupKey : List (Node × Node) → Bool
  | [] => false
  | (k, _) :: rest => rest.any (fun q => q.1.kind = k.kind && q.1.value = k.value) || hasDupKey rest

def structFields (fields : List String) (n : Node) : D (List (String × Node)) :=
  match n.kind with
  | .alias => .error .unsupported
  | .mapping => if hasDupKey (pairs n.content) then .error .decode else structLoop fields (pairs n.content) []
  | .scalar => if n.tag = "!!null" then .ok [] else .error .decode
  | _ => .error .decode

def field (fs : List (String × Node)) (name : String) : Option Node :=
  match fs.find? (·.1 = name) with
  | some e => some e.2
  | none => none

def tyOfString : String → Ty
  | "boolean" => .bool
  | "number" => .number
  | "string" => .string
  | _ => .any

/-- `ReusableWorkflowMetadataInput.UnmarshalYAML` (not called for a null node: all fields zero, `Type` then set to any) -/
def decInput (v : Node) : D (Bool × Ty) := do
  let fs ← structFields ["required", "default", "type"] v
  let req ← match field fs "required" with
    | some x => decBool x
    | none => pure false
  let dflt ← match field fs "default" with
    | some x => decStrPtr x
    | none => pure none
  let ty ← match field fs "type" with
    | some x => decStr x
    | none => pure ""
  pure (req && dflt.isNone, tyOfString ty)

def decInputsLoop (cfg : Cfg) : List (Node × Node) → List (String × Input) → D (List (String × Input))
  | [], m => .ok m
  | (k, v) :: rest, m => do
    let r ← decInput v
    decInputsLoop cfg rest (put m (cfg.lower k.value) ⟨k.value, r.1, r.2⟩)

/-- `ReusableWorkflowMetadataInputs.UnmarshalYAML` -/
def decInputs (cfg : Cfg) (n : Node) : D (List (String × Input)) :=
  match n.kind with
  | .alias => .error .unsupported
  | .mapping => decInputsLoop cfg (pairs n.content) []
  | _ => .error .decode

/-- decoding a `ReusableWorkflowMetadataSecret` (fields `name`, `required`; `Name` is overwritten with the key) -/
def decSecret (v : Node) : D Bool := do
  let fs ← structFields ["name", "required"] v
  let _ ← match field fs "name" with
    | some x => decStr x
    | none => pure ""
  match field fs "required" with
    | some x => decBool x
    | none => pure false

def decSecretsLoop (cfg : Cfg) : List (Node × Node) → List (String × Secret) → D (List (String × Secret))
  | [], m => .ok m
  | (k, v) :: rest, m => do
    let r ← decSecret v
    decSecretsLoop cfg rest (put m (cfg.lower k.value) ⟨k.value, r⟩)

/-- `ReusableWorkflowMetadataSecrets.UnmarshalYAML` -/
def decSecrets (cfg : Cfg) (n : Node) : D (List (String × Secret)) :=
  match n.kind with
  | .alias => .error .unsupported
  | .mapping => decSecretsLoop cfg (pairs n.content) []
  | _ => .error .decode

/-- `ReusableWorkflowMetadataOutputs.UnmarshalYAML`: the keys only -/
def decOutputs (cfg : Cfg) (n : Node) : D (List (String × String)) :=
  match n.kind with
  | .alias => .error .unsupported
  | .mapping => .ok ((pairs n.content).foldl (fun m kv => put m (cfg.lower kv.1.value) kv.1.value) [])
  | _ => .error .decode

/-- a field with an `UnmarshalYAML` method: the method is not called for a null node -/
def viaUnmarshaler {α : Type} (dec : Node → D (List α)) (x : Option Node) : D (List α) :=
  match x with
  | none => .ok []
  | some n => if n.isNull then .ok [] else dec n

/-- decoding the value of the `workflow_call:` key into `ReusableWorkflowMetadata` -/
def fromYaml (cfg : Cfg) (n : Node) : D Meta := do
  let fs ← structFields ["inputs", "outputs", "secrets"] n
  let i ← viaUnmarshaler (decInputs cfg) (field fs "inputs")
  let o ← viaUnmarshaler (decOutputs cfg) (field fs "outputs")
  let s ← viaUnmarshaler (decSecrets cfg) (field fs "secrets")
  pure { inputs := i, outputs := o, secrets := s }

def findCallKey (cfg : Cfg) : List (Node × Node) → Option Node
  | [] => none
  | (k, v) :: rest => if cfg.lower k.value = "workflow_call" then some v else findCallKey cfg rest

/-- `parseReusableWorkflowMetadata` from the value of `on:` -/
def fromOn (cfg : Cfg) (on : Node) : D Meta :=
  match on.kind with
  | .mapping =>
    match findCallKey cfg (pairs on.content) with
    | some v => fromYaml cfg v
    | none => .error .notFound
  | .scalar => if cfg.lower on.value = "workflow_call" then .ok {} else .error .notFound
  | .sequence => if on.content.any (fun c => cfg.lower c.value = "workflow_call") then .ok {} else .error .notFound
  | _ => .error .notFound

/-- `yaml.Unmarshal(src, &struct{ On yaml.Node })` then `parseReusableWorkflowMetadata`: from the document node -/
def fromDoc (cfg : Cfg) (doc : Node) : D Meta :=
  match doc.content with
  | [] => .error .notFound
  | root :: _ =>
    match structFields ["on"] root with
    | .error e => .error e
    | .ok fs =>
      match field fs "on" with
      | none => .error .notFound
      | some on => fromOn cfg on

/-- the AST side for a whole document -/
def fromDocAst (cfg : Cfg) (doc : Node) : Option Meta :=
  fromEvents ((parse cfg doc).1.on.getD [])

end AL.CallMeta
