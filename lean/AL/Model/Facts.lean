/-
  Small computable helpers used to compare regenerated fact tables (AL/Gen) with hand-written
  expectations (AL/Spec). All checks are Bool-valued so that `decide` re-evaluates them on every run.
-/
namespace AL.Facts

def insertS (s : String) : List String → List String
  | [] => [s]
  | x :: rest => if s < x then s :: x :: rest else if s = x then x :: rest else x :: insertS s rest

/-- sorted, duplicate-free -/
def sortDedup (l : List String) : List String := l.foldl (fun acc s => insertS s acc) []

def lowerAscii (s : String) : String :=
  String.ofList (s.toList.map fun c => if 'A' ≤ c ∧ c ≤ 'Z' then Char.ofNat (c.toNat + 32) else c)

/-- `fail-fast` ~ `FailFast`, `cancel-in-progress` ~ `CancelInProgress`: compare letters and digits only -/
def squash (s : String) : String :=
  String.ofList ((lowerAscii s).toList.filter fun c => c ≠ '-' ∧ c ≠ '_' ∧ c ≠ '$')

def keyMatchesSomeField (key : String) (fields : List String) : Bool :=
  fields.any fun f => squash f = squash key

end AL.Facts
