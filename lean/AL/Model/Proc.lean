/-
  Model for C20: `sanitizeExpressionsInScript`, effective-shell resolution of rule_shellcheck.go /
  rule_pyflakes.go, the outcome table of `cmdExecution.run` + the two callbacks, the pyflakes output
  splitter, and the concurrency protocol of process.go / linter.go as a labelled transition system.
-/
namespace AL.Proc

/-! ### sanitize -/

/-- `bytes.Index`/`strings.Index` on byte lists -/
def indexOf (pat : List Nat) : List Nat → Nat → Option Nat
  | [], i => if pat.isEmpty then some i else none
  | c :: cs, i => if pat.isPrefixOf (c :: cs) then some i else indexOf pat cs (i + 1)

def open3 : List Nat := [36, 123, 123]   -- "${{"
def close2 : List Nat := [125, 125]      -- "}}"

theorem indexOf_le (pat : List Nat) (s : List Nat) (i k : Nat) (h : indexOf pat s i = some k) : i ≤ k ∧ k ≤ i + s.length := by
  induction s generalizing i with
  | nil => simp [indexOf] at h; omega
  | cons c cs ih =>
    simp only [indexOf] at h
    split at h
    · simp at h; simp; omega
    · have := ih (i + 1) h; simp; omega

/-- `sanitizeExpressionsInScript`: every closed `${{ … }}` is overwritten with `_`; `fuel` = `src.length` suffices -/
def sanitizeAux : Nat → List Nat → List Nat
  | 0, src => src
  | fuel + 1, src =>
    match indexOf open3 src 0 with
    | none => src
    | some s =>
      match indexOf close2 (src.drop s) 0 with
      | none => src
      | some e0 =>
        let e := e0 + s + 2
        src.take s ++ List.replicate (e - s) 95 ++ sanitizeAux fuel (src.drop e)

def sanitize (src : List Nat) : List Nat := sanitizeAux src.length src

/-! ### effective shell -/

/-- `getShellName`: step, then job default, then workflow default, then runner default, then bash.
Job / workflow / runner defaults are "" when absent. -/
def effectiveShell (step : Option String) (job workflow runner : String) : String :=
  match step with
  | some s => s
  | none => if job ≠ "" then job else if workflow ≠ "" then workflow else if runner ≠ "" then runner else "bash"

/-- which shell is handed to shellcheck (`none`: the script is skipped) -/
def shellcheckShell (shell : String) : Option String :=
  if shell = "bash" || shell = "sh" then some shell
  else if shell.startsWith "bash " then some "bash"
  else if shell.startsWith "sh " then some "sh"
  else none

inductive PyKind where | unspecified | python | notPython
deriving Repr, DecidableEq

def pyKind : Option String → PyKind
  | none => .unspecified
  | some s => if s = "python" || s.startsWith "python " then .python else .notPython

/-- `isPythonShell`: step, then job default, then workflow default -/
def isPython (step : Option String) (job workflow : PyKind) : Bool :=
  match pyKind step with
  | .python => true
  | .notPython => false
  | .unspecified => if job ≠ .unspecified then job = .python else workflow = .python

/-- stdin handed to shellcheck -/
def shellcheckStdin (sh : String) (script : List Nat) : List Nat :=
  ((if sh = "bash" then "set -eo pipefail" else "set -e").toUTF8.toList.map (·.toNat)) ++ [10] ++ sanitize script ++ [10]

/-! ### outcome table -/

/-- what the tool process did -/
inductive ToolOutcome where
  | cannotStart                       -- exec error that is not an ExitError
  | signaled (stdout : List Nat)      -- exit code < 0
  | exited (code : Nat) (stdout : List Nat)
deriving Repr, DecidableEq

/-- `cmdExecution.run`: `none` = error returned to the callback -/
def runResult : ToolOutcome → Option (List Nat)
  | .cannotStart => none
  | .signaled _ => none
  | .exited code stdout => if code ≠ 0 && stdout.isEmpty then none else some stdout

/-- result of the shellcheck callback: fatal error, or the number of diagnostics; `json` abstracts
`json.Unmarshal` into `[]shellcheckError` (`none` = not JSON) -/
inductive CbResult where
  | fatal
  | diags (n : Nat)
deriving Repr, DecidableEq

def shellcheckCallback (json : List Nat → Option Nat) (o : ToolOutcome) : CbResult :=
  match runResult o with
  | none => .fatal
  | some out => match json out with
    | none => .fatal
    | some n => .diags n

def stdinMark : List Nat := [60, 115, 116, 100, 105, 110, 62, 58]   -- "<stdin>:"

/-- pyflakes output splitter (`for len(stdout) > 0 { parseNextError }`): number of messages, or fatal
when a `<stdin>:` line is not terminated -/
def pyflakesSplit : Nat → List Nat → Nat → CbResult
  | 0, _, n => .diags n
  | fuel + 1, out, n =>
    if out.isEmpty then .diags n else
    match indexOf stdinMark out 0 with
    | none => .diags n
    | some i =>
      let b := out.drop (i + 8)
      match indexOf [10] b 0 with
      | none => .fatal
      | some j => pyflakesSplit fuel (b.drop (j + 1)) (n + 1)

def pyflakesCallback (o : ToolOutcome) : CbResult :=
  match runResult o with
  | none => .fatal
  | some out => pyflakesSplit out.length out 0

/-! ### concurrency protocol -/

inductive PC where
  | idle          -- not submitted yet
  | added         -- proc.run: wg.Add(1), goroutine started, waiting for the semaphore
  | running       -- semaphore acquired, tool process running
  | released      -- process finished, semaphore released, callback running
  | done          -- callback returned, wg.Done()
deriving Repr, DecidableEq

structure State where
  par       : Nat           -- semaphore capacity (NumCPU)
  sema      : Nat           -- free permits
  wg        : Nat           -- WaitGroup counter
  pcs       : List PC       -- one per invocation
  visiting  : Bool := true  -- some file goroutine is still inside Visit (may still call proc.run)
  egWaited  : Bool := false -- eg.Wait() returned: every file goroutine finished
  procWaited: Bool := false -- proc.wait() returned
  returned  : Bool := false -- LintFiles returned its result
deriving Repr

inductive Act where
  | submit (i : Nat)     -- a rule calls cmd.run → proc.run: wg.Add(1); go …
  | acquire (i : Nat)    -- sema.Acquire
  | finish (i : Nat)     -- tool exits; sema.Release
  | callback (i : Nat)   -- callback returns; wg.Done
  | visitDone            -- all Visit calls returned and every rule's cmd.wait() (errgroup) returned
  | egWait               -- eg.Wait() returns in LintFiles
  | procWait             -- proc.wait() returns
  | ret                  -- LintFiles returns
deriving Repr, DecidableEq

def setPc (pcs : List PC) (i : Nat) (p : PC) : List PC := pcs.set i p

def count (pcs : List PC) (p : PC) : Nat := (pcs.filter (· = p)).length

/-- enabledness and effect of each action; `none` = not enabled in this state -/
def step (s : State) : Act → Option State
  | .submit i =>
    if s.visiting && s.pcs[i]? = some .idle then some { s with pcs := setPc s.pcs i .added, wg := s.wg + 1 } else none
  | .acquire i =>
    if s.pcs[i]? = some .added && s.sema > 0 then some { s with pcs := setPc s.pcs i .running, sema := s.sema - 1 } else none
  | .finish i =>
    if s.pcs[i]? = some .running then some { s with pcs := setPc s.pcs i .released, sema := s.sema + 1 } else none
  | .callback i =>
    if s.pcs[i]? = some .released then some { s with pcs := setPc s.pcs i .done, wg := s.wg - 1 } else none
  | .visitDone =>
    -- VisitWorkflowPost of each tool rule returns only after its errgroup has no outstanding goroutine
    if s.visiting && s.pcs.all (fun p => p = .idle || p = .done) then some { s with visiting := false } else none
  | .egWait => if !s.visiting && !s.egWaited then some { s with egWaited := true } else none
  | .procWait => if s.egWaited && s.wg = 0 && !s.procWaited then some { s with procWaited := true } else none
  | .ret => if s.procWaited && !s.returned then some { s with returned := true } else none

def init (par n : Nat) : State := { par := par, sema := par, wg := 0, pcs := List.replicate n .idle }

/-- run a schedule; `none` if some action is not enabled -/
def exec (s : State) : List Act → Option State
  | [] => some s
  | a :: as => match step s a with
    | some s' => exec s' as
    | none => none

end AL.Proc
