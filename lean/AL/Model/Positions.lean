import AL.Model.Proc
/-
  Model of the position arithmetic of rule_expression.go (`checkExprsIn`, `convertExprLineColToPos`)
  and rule_glob.go: how a position inside an expression / a glob pattern becomes a position in the file.
-/
namespace AL.Positions
open AL.Proc (indexOf open3)

/-- `checkExprsIn`'s loop over the placeholders of a scalar: `consume rest` is what `checkSemantics`
returns as `offsetAfter` for the text after `${{` (bytes consumed by the lexer up to and including `}}`;
0 stops the loop, as does a syntax error — modelled by `consume` returning 0). Returns the byte offset
(in the original string) at which each expression starts. `fuel` = `s.length`. -/
def exprOffsets (consume : List Nat → Nat) : Nat → List Nat → Nat → List Nat
  | 0, _, _ => []
  | fuel + 1, s, offset =>
    match indexOf open3 s 0 with
    | none => []
    | some idx =>
      let start := idx + 3
      let s1 := s.drop start
      let off1 := offset + start
      let after := consume s1
      if after = 0 then [off1]
      else off1 :: exprOffsets consume fuel (s1.drop after) (off1 + after)

structure Pos where
  line : Nat
  col  : Nat
deriving Repr, DecidableEq

/-- `convertExprLineColToPos(line, col, lineBase, colBase)` -/
def convert (line col lineBase colBase : Nat) : Pos := ⟨line - 1 + lineBase, col - 1 + colBase⟩

/-- position reported for a token at (tokLine, tokCol) (1-based, relative to the expression start) of the
expression that starts at byte `exprOff` of a scalar at (L, C) with `quoted` flag -/
def reported (L C : Nat) (quoted : Bool) (exprOff tokLine tokCol : Nat) : Pos :=
  convert tokLine tokCol L (C + (if quoted then 1 else 0) + exprOff)

/-- rule_glob.go: column of a glob error inside a scalar at column C -/
def globCol (C : Nat) (quoted : Bool) (errCol : Nat) : Nat :=
  C + (if quoted then 1 else 0) + (if errCol ≠ 0 then errCol - 1 else 0)

end AL.Positions
