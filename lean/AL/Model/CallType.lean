import AL.Model.Ty
/-
  rule_expression.go `checkWorkflowCall`: the type of the value supplied for an input of a local reusable workflow, and
  when it is reported against the input's declared type.

      switch len(ts) { case 0: literal by spelling; case 1: if IsExpressionAssigned { ty = ts[0].ty } }   // else string
      if !mi.Type.Assignable(ty) { report }            // skipped when the declared type is any
-/
namespace AL.CallType
open AL

/-- spelling of a value without placeholder (after `TrimSpace`) -/
inductive Lit where
  | null | bool | number | other
deriving Repr, DecidableEq

/-- shape of a supplied value -/
inductive Shape where
  | literal (l : Lit)        -- no placeholder
  | whole (ty : Ty)          -- the value IS one placeholder, of type `ty`
  | embedded                 -- exactly one placeholder with text around it
  | several                  -- two or more placeholders
deriving Repr

def valueTy : Shape → Ty
  | .literal .null => .null
  | .literal .bool => .bool
  | .literal .number => .number
  | .literal .other => .string
  | .whole ty => ty
  | .embedded => .string
  | .several => .string

/-- is the value reported against the declared type? (`decl = any`: never checked) -/
def reported (decl : Ty) (s : Shape) : Bool :=
  match decl with
  | .any => false
  | d => !(Ty.assignable d (valueTy s))

end AL.CallType
