import AL.Model.ParseWf
import AL.Model.Needs
import AL.Model.Glob
import AL.Gen.Webhooks
import AL.Gen.RunnerLabels
import AL.Model.ExprConv
import AL.Gen.Popular
import AL.Model.Cron
/-
  The rules that need nothing but the AST, as functions of the AST the parser model produces, and the tail of
  `Linter.check` (all diagnostics of the parser and of the rules, stably sorted by position):

    rule_matrix.go       (through AL.Matrix)      rule_credentials.go     rule_job_needs.go (through AL.Needs)
    rule_env_var.go      rule_id.go               rule_glob.go (through AL.Glob)
    rule_permissions.go  rule_if_cond.go          rule_shell_name.go      rule_deprecated_commands.go
    rule_events.go (the CRON check through AL.Cron)   rule_runner_label.go    rule_action.go / rule_workflow_call.go (no project)

  in the order linter.go creates them. The visitor (pass.go) walks `Workflow.Jobs`, a Go map: here the jobs are visited
  in the order of the association list (source order). A rule's state that lives across callbacks is explicit
  (`RuleID.seen`, `RuleJobNeeds.nodes`).
-/
namespace AL.Rules
open AL.Yaml AL.Ast

abbrev Pos := AL.Yaml.Pos

structure Diag where
  pos : Pos
  kind : String
  code : String
  args : List String
deriving Repr, DecidableEq, Inhabited

def containsExpr (s : Str) : Bool := AL.Matrix.containsExpr s.value

/-- `Pos.IsBefore` -/
def isBefore (a b : Pos) : Bool := a.line < b.line || (a.line = b.line && a.col < b.col)

def jobsOf (w : Workflow) : List Job := (w.jobs.getD []).map (·.2)
def stepsOf (j : Job) : List Step := j.steps.getD []

/-! ### rule_id.go -/

def isIdStart (c : Char) : Bool := ('a' ≤ c && c ≤ 'z') || ('A' ≤ c && c ≤ 'Z') || c = '_'
def isIdChar (c : Char) : Bool := isIdStart c || ('0' ≤ c && c ≤ '9') || c = '-'

/-- `jobIDPattern = ^[a-zA-Z_][a-zA-Z0-9_-]*$` -/
def matchesIdPattern (s : String) : Bool :=
  match s.toList with
  | [] => false
  | c :: cs => isIdStart c && cs.all isIdChar

/-- `validateConvention` -/
def validateConvention (id : Option Str) (what : String) : List Diag :=
  match id with
  | none => []
  | some s =>
    if s.value = "" || containsExpr s || matchesIdPattern s.value then []
    else [⟨s.pos, "id", "id-convention", [what, s.value]⟩]

def lookupSeen (id : String) : List (String × Pos) → Option Pos
  | [] => none
  | (k, p) :: rest => if k = id then some p else lookupSeen id rest

/-- `RuleID.VisitStep` over the steps of one job; `seen` is `rule.seen` -/
def idSteps (lower : String → String) : List Step → List (String × Pos) → List Diag
  | [], _ => []
  | st :: rest, seen =>
    match st.id with
    | none => idSteps lower rest seen
    | some s =>
      let conv := validateConvention (some s) "step"
      let id := lower s.value
      match lookupSeen id seen with
      | some prev => conv ++ [⟨s.pos, "id", "step-id-duplicate", [s.value, AL.PW.posString prev]⟩] ++ idSteps lower rest seen
      | none => conv ++ idSteps lower rest (seen ++ [(id, s.pos)])

/-- `VisitJobPre` (fresh `seen`), the steps, `VisitJobPost` -/
def idJob (lower : String → String) (j : Job) : List Diag :=
  validateConvention (some j.id) "job" ++
  (j.needs.getD []).flatMap (fun n => validateConvention (some n) "job") ++
  idSteps lower (stepsOf j) []

def ruleId (lower : String → String) (w : Workflow) : List Diag := (jobsOf w).flatMap (idJob lower)

/-! ### rule_env_var.go -/

/-- `strings.ContainsAny(name, "&= \t")` -/
def badEnvName (s : String) : Bool := s.toList.any fun c => c = '&' || c = '=' || c = ' ' || c = '\t'

def checkEnv (env : Option Env) : List Diag :=
  match env with
  | none => []
  | some e =>
    if e.expr.isSome then []
    else (e.vars.getD []).flatMap fun kv =>
      if containsExpr kv.2.name then []
      else if badEnvName kv.2.name.value then [⟨kv.2.name.pos, "env-var", "env-var-name", [kv.2.name.value]⟩]
      else []

def envVarJob (j : Job) : List Diag :=
  checkEnv j.env ++
  (match j.container with | some c => checkEnv c.env | none => []) ++
  (match j.services with
   | some s => (s.value.getD []).flatMap fun kv => checkEnv kv.2.container.env
   | none => []) ++
  (stepsOf j).flatMap fun st => checkEnv st.env

def ruleEnvVar (w : Workflow) : List Diag := checkEnv w.env ++ (jobsOf w).flatMap envVarJob

/-! ### rule_credentials.go -/

def checkCredContainer (whereKind whereArg : String) (c : Container) : List Diag :=
  match c.credentials with
  | none => []
  | some cr =>
    match cr.password with
    | none => []
    | some p => if AL.Yaml.isExprAssigned p.value then [] else [⟨p.pos, "credentials", "password-literal", [whereKind, whereArg]⟩]

def credentialsJob (j : Job) : List Diag :=
  (match j.container with | some c => checkCredContainer "container" "" c | none => []) ++
  (match j.services with
   | some s => (s.value.getD []).flatMap fun kv => checkCredContainer "service" kv.2.name.value kv.2.container
   | none => [])

def ruleCredentials (w : Workflow) : List Diag := (jobsOf w).flatMap credentialsJob

/-! ### rule_permissions.go -/

def allPermissionScopes : List String :=
  ["actions", "attestations", "checks", "contents", "deployments", "id-token", "issues", "discussions", "packages",
   "pages", "pull-requests", "repository-projects", "security-events", "statuses"]

def checkPermissions (p : Option Permissions) : List Diag :=
  match p with
  | none => []
  | some p =>
    match p.all with
    | some a => if a.value = "write-all" || a.value = "read-all" then [] else [⟨a.pos, "permissions", "permission-all", [a.value]⟩]
    | none =>
      (p.scopes.getD []).flatMap fun kv =>
        let n := kv.2.name.value
        (if allPermissionScopes.contains n then [] else [⟨kv.2.name.pos, "permissions", "permission-scope", [n]⟩]) ++
        (if kv.2.value.value = "read" || kv.2.value.value = "write" || kv.2.value.value = "none" then []
         else [⟨kv.2.value.pos, "permissions", "permission-value", [kv.2.value.value, n]⟩])

def rulePermissions (w : Workflow) : List Diag :=
  checkPermissions w.permissions ++ (jobsOf w).flatMap fun j => checkPermissions j.permissions

/-! ### rule_if_cond.go -/

def checkIfCond (s : Option Str) : List Diag :=
  match s with
  | none => []
  | some n =>
    if !containsExpr n then []
    else
      let v := n.value.toList
      if "${{".toList.isPrefixOf v && hasSuffix "}}".toList v && countOcc "${{".toList v 0 = 1 then []
      else [⟨n.pos, "if-cond", "if-cond-always-true", [n.value]⟩]

def ruleIfCond (w : Workflow) : List Diag :=
  (jobsOf w).flatMap fun j => checkIfCond j.cond ++ (stepsOf j).flatMap fun st => checkIfCond st.cond

/-! ### rule_job_needs.go through AL.Needs -/

def toNP (p : Pos) : AL.Needs.P := ⟨p.line, p.col⟩
def ofNP (p : AL.Needs.P) : Pos := ⟨p.line, p.col⟩

def needsJobIn (j : Job) : AL.Needs.JobIn :=
  { idValue := j.id.value, idPos := toNP j.id.pos, jobPos := toNP j.pos,
    needs := (j.needs.getD []).map fun n => ⟨n.value, toNP n.pos⟩ }

def needsDiag : AL.Needs.Diag → Diag
  | .dupNeeds pos value => ⟨ofNP pos, "job-needs", "needs-duplicate", [value]⟩
  | .dupJob pos idValue prev => ⟨ofNP pos, "job-needs", "job-id-duplicate", [idValue, AL.PW.posString (ofNP prev)]⟩
  | .undefined pos id dep => ⟨ofNP pos, "job-needs", "needs-undefined", [id, dep]⟩
  | .cyclic d => ⟨ofNP d.pos, "job-needs", "needs-cyclic", [",".intercalate d.path]⟩

def ruleJobNeeds (lower : String → String) (w : Workflow) : List Diag :=
  let jobs := (jobsOf w).map needsJobIn
  (AL.Needs.check lower jobs (List.range jobs.length)).map needsDiag

/-! ### rule_matrix.go through AL.Matrix -/

def matrixCombos (c : Option MatrixCombinations) : Option AL.Matrix.Combos :=
  c.map fun cs =>
    if cs.expr.isSome then AL.Matrix.Combos.expr
    else .list ((cs.combinations.getD []).map fun x =>
      if x.expr.isSome then AL.Matrix.Combo.expr
      else .assigns ((x.assigns.getD []).map fun kv => ⟨kv.1, kv.2.key.pos, kv.2.value⟩))

def matrixOf (m : Matrix) : AL.Matrix.Mat :=
  { pos := m.pos,
    -- a row is left out of the exclude check iff `Expression != nil`; a scalar row that is not a placeholder (the parser
    -- reported it) has neither expression nor values: it takes part with no values
    rows := (m.rows.getD []).map fun kv => ⟨kv.1, if kv.2.expr.isSome then none else some (kv.2.values.getD [])⟩,
    incl := matrixCombos m.incl, excl := matrixCombos m.excl }

def matrixDiag : AL.Matrix.Diag → Diag
  | .dup pos _ prev => ⟨pos, "matrix", "matrix-duplicate", [AL.PW.posString prev]⟩
  | .noVariation pos => ⟨pos, "matrix", "matrix-no-variation", []⟩
  | .unknownKey pos key _ => ⟨pos, "matrix", "matrix-exclude-unknown-key", [key]⟩
  | .noMatch pos key => ⟨pos, "matrix", "matrix-exclude-no-match", [key]⟩

def matrixJob (j : Job) : List Diag :=
  match j.strategy with
  | none => []
  | some s =>
    match s.matrix with
    | none => []
    | some m => if m.expr.isSome then [] else (AL.Matrix.check (matrixOf m)).map matrixDiag

def ruleMatrix (w : Workflow) : List Diag := (jobsOf w).flatMap matrixJob

/-! ### rule_glob.go through AL.Glob -/

open AL.Glob in
def globCode : GMsg → String
  | .emptyPattern => "empty"
  | .scan .nul => "scan,nul"
  | .scan .utf8 => "scan,utf8"
  | .unexpected ch w y =>
    let whatS : What → String
      | .none => "-" | .qmark => "q" | .plus => "p" | .classContent => "cc" | .classEnd => "ce"
      | .range => "cr" | .classMatch => "cm" | .neg => "neg"
    let whyS : Why → String
      | .prec => "prec" | .empty => "empty" | .missing => "missing" | .noEnd => "noend"
      | .single => "single" | .newline => "nl" | .follow => "follow"
      | .badRange lo hi => s!"range:{lo}:{hi}"
    s!"unexp,{match ch with | some r => toString r | none => "EOF"},{whatS w},{whyS y}"
  | .invalidRef ch y =>
    let refWhyS : RefWhy → String
      | .chars => "chars" | .esc => "esc" | .endsWith => "end" | .startsWith => "start"
    s!"ref,{(ch.getD 65533)},{refWhyS y}"
  | .leadingSpace => "lead"
  | .trailingSpace => "trail"

def symsOf (s : String) : List AL.Sym := AL.decodeUtf8 (s.toUTF8.toList.map (·.toNat))

/-- `globErrors` -/
def globErrors (errs : List AL.Glob.GErr) (v : Str) : List Diag :=
  errs.map fun e =>
    let col := v.pos.col + (if v.quoted then 1 else 0) + (if e.col ≠ 0 then e.col - 1 else 0)
    ⟨⟨v.pos.line, col⟩, "glob", "glob", [globCode e.msg]⟩

def checkGlobs (isRef : Bool) (f : Option Filter) : List Diag :=
  match f with
  | none => []
  | some f => (f.values.getD []).flatMap fun v =>
    if v.value = "" then []
    else globErrors (if isRef then AL.Glob.validateRef (symsOf v.value) else AL.Glob.validatePath (symsOf v.value)) v

def ruleGlob (w : Workflow) : List Diag :=
  (w.on.getD []).flatMap fun e =>
    match e with
    | .webhook h =>
      checkGlobs true h.branches ++ checkGlobs true h.branchesIgnore ++ checkGlobs true h.tags ++ checkGlobs true h.tagsIgnore ++
      checkGlobs false h.paths ++ checkGlobs false h.pathsIgnore
    | _ => []

/-! ### rule_shell_name.go -/

inductive Platform where | any | macOrLinux | windows
deriving Repr, DecidableEq

def availableShells : Platform → List String
  | .any => ["bash", "pwsh", "python", "sh", "cmd", "powershell"]
  | .windows => ["bash", "pwsh", "python", "cmd", "powershell"]
  | .macOrLinux => ["bash", "pwsh", "python", "sh"]

def labelPlatform (lower : String → String) (label : String) : Platform :=
  let l := lower label
  if l.startsWith "windows-" || l = "windows" then .windows
  else if l.startsWith "macos-" || l.startsWith "ubuntu-" || l = "macos" || l = "linux" then .macOrLinux
  else .any

/-- `getPlatformFromRunner`: the loop over the labels; `none` = two different platforms were seen -/
def platformLoop (lower : String → String) : List Str → Platform → Platform
  | [], ret => ret
  | l :: rest, ret =>
    let k := labelPlatform lower l.value
    if k = .any then platformLoop lower rest ret
    else if ret ≠ .any && ret ≠ k then .any
    else platformLoop lower rest k

def platformOf (lower : String → String) (r : Runner) : Platform := platformLoop lower (r.labels.getD []) .any

def containsSub (pat s : String) : Bool := (AL.Matrix.indexOf pat.toList s.toList 0).isSome

/-- `checkShellName` -/
def checkShellName (lower : String → String) (pf : Platform) (node : Option Str) : List Diag :=
  match node with
  | none => []
  | some n =>
    if containsSub "{0}" n.value then []
    else if containsExpr n then []
    else
      let name := lower n.value
      if (availableShells pf).contains name then []
      else
        let on := match pf with
          | .windows => if (availableShells .any).contains name then " on Windows" else ""
          | .macOrLinux => if (availableShells .any).contains name then " on macOS or Linux" else ""
          | .any => ""
        [⟨n.pos, "shell-name", "shell-name", [n.value, on]⟩]

def defaultsShell (d : Option Defaults) : Option Str :=
  match d with
  | some d => (match d.run with | some r => r.shell | none => none)
  | none => none

/-- `VisitJobPre`, the steps, `VisitJobPost` (which clears the platform: every job starts from `any`) -/
def shellNameJob (lower : String → String) (j : Job) : List Diag :=
  let pf := match j.runsOn with | some r => platformOf lower r | none => Platform.any
  (match j.runsOn with
   | some _ => checkShellName lower pf (defaultsShell j.defaults)
   | none => []) ++
  (stepsOf j).flatMap fun st => match st.exec with
    | .run e => checkShellName lower pf e.shell
    | _ => []

def ruleShellName (lower : String → String) (w : Workflow) : List Diag :=
  checkShellName lower .any (defaultsShell w.defaults) ++ (jobsOf w).flatMap (shellNameJob lower)

/-! ### rule_runner_label.go (the labels of the configuration file come in through `LabelCfg`; empty without configuration) -/

/-- `strings.EqualFold(l, p)` for an ASCII lower-case pattern `p`: only ASCII letters, U+017F (ſ) and U+212A (K) fold to ASCII letters -/
def foldAscii (s : String) : String :=
  String.ofList (s.toList.map fun c =>
    if c.toNat = 0x17F then 's' else if c.toNat = 0x212A then 'k'
    else if 'A' ≤ c ∧ c ≤ 'Z' then Char.ofNat (c.toNat + 32) else c)

/-- what the rules are told about the world outside the file: the labels of the configuration file
(`self-hosted-runner.labels`, glob patterns) and Go's `path.Match` on them (`pmatch pattern label` = `none` when the pattern is
malformed), and the zone names `time.LoadLocation` knows besides "", "UTC" and "Local" (the CRON check of rule_events.go;
the default knows none: `TZ=Asia/Tokyo …` is then a bad location) -/
structure LabelCfg where
  known : List String := []
  pmatch : String → String → Option Bool := fun _ _ => some false
  zoneKnown : List Char → Bool := fun _ => false

/-- the loop over the configured label patterns in `verifyRunnerLabel`: `none` = no pattern matches, `some []` = one does,
`some [d]` = a malformed pattern was met first -/
def knownLoop (lc : LabelCfg) (label : Str) : List String → Option (List Diag)
  | [] => none
  | k :: rest =>
    match lc.pmatch k label.value with
    | none => some [⟨label.pos, "runner-label", "label-pattern-invalid", [k]⟩]
    | some true => some []
    | some false => knownLoop lc label rest

/-- `verifyRunnerLabel`: the compatibility set (0 = `compatInvalid`) and the diagnostic for an unknown label -/
def verifyRunnerLabel (lower : String → String) (label : Str) (lc : LabelCfg := {}) : Nat × List Diag :=
  match AL.Gen.runnerCompats.find? (·.1 = lower label.value) with
  | some (_, c) => (c, [])
  | none =>
    if AL.Gen.runnerOtherLabels.any (fun p => foldAscii label.value = p) then (0, [])
    else match knownLoop lc label lc.known with
      | some ds => (0, ds)
      | none => (0, [⟨label.pos, "runner-label", "label-unknown", [label.value]⟩])

/-- `tryToGetLabelsInMatrix`: `${{ matrix.<prop> }}` resolved against the rows and the include entries of a literal matrix -/
def labelsInMatrix (lower : String → String) (label : Str) (m : Option Matrix) : List Str :=
  match m with
  | none => []
  | some m =>
    if !AL.Yaml.isExprAssigned label.value then []
    else
      let l := String.ofList (AL.Yaml.trimSpace label.value.toList)
      let bytes := (l.toUTF8.toList.map (·.toNat)).drop 3
      match AL.Parse.parseToks (AL.Lex.tokens (AL.decodeUtf8 bytes)) with
      | .error _ => []
      | .ok pe =>
        match AL.toE lower pe with
        | .objDeref (.var "matrix") prop =>
          let fromRows := match m.rows with
            | some rows =>
              (match rows.find? (·.1 = prop) with
               | some (_, row) => (row.values.getD []).filterMap fun v => match v with
                 | .str s p => if AL.Matrix.containsExpr s then none else some (⟨s, false, p⟩ : Str)
                 | _ => none
               | none => [])
            | none => []
          let fromInc := match m.incl with
            | some inc => (inc.combinations.getD []).filterMap fun c =>
              match c.assigns with
              | some as =>
                (match as.find? (·.1 = prop) with
                 | some (_, a) => (match a.value with
                   | .str s p => if AL.Matrix.containsExpr s then none else some (⟨s, false, p⟩ : Str)
                   | _ => none)
                 | none => none)
              | none => none
            | none => []
          fromRows ++ fromInc
        | _ => []

abbrev Compats := List (Nat × Str)

/-- `checkConflict`: the earliest (by position) registered label whose set is disjoint from `comp` -/
def conflictWith (compats : Compats) (comp : Nat) : Option Str :=
  compats.foldl (fun found cl =>
    if Nat.land cl.1 comp = 0 then
      match found with
      | none => some cl.2
      | some f => if isBefore cl.2.pos f.pos then some cl.2 else found
    else found) none

def conflictDiag (label found : Str) : Diag :=
  ⟨label.pos, "runner-label", "label-conflict", [label.value, found.value, AL.PW.posString found.pos]⟩

def registerCompat (compats : Compats) (comp : Nat) (label : Str) : Compats :=
  if compats.any (·.1 = comp) then compats else compats ++ [(comp, label)]

/-- `checkCompat` -/
def checkCompat (compats : Compats) (comp : Nat) (label : Str) : Compats × List Diag :=
  if comp = 0 then (compats, [])
  else match conflictWith compats comp with
    | some f => (compats, [conflictDiag label f])
    | none => (registerCompat compats comp label, [])

/-- `checkCombiCompat`: all labels a matrix expression may yield are checked against what was registered before them;
the survivors are registered afterwards -/
def checkCombiCompat (compats : Compats) (cls : List (Nat × Str)) : Compats × List Diag :=
  let checked := cls.map fun cl =>
    if cl.1 ≠ 0 then
      match conflictWith compats cl.1 with
      | some f => ((0, cl.2), [conflictDiag cl.2 f])
      | none => (cl, [])
    else (cl, [])
  let compats' := checked.foldl (fun cs x => if x.1.1 ≠ 0 then registerCompat cs x.1.1 x.1.2 else cs) compats
  (compats', checked.flatMap (·.2))

/-- `checkLabelAndConflict` -/
def checkLabelAndConflict (lc : LabelCfg) (lower : String → String) (m : Option Matrix) (acc : Compats × List Diag) (l : Str) : Compats × List Diag :=
  if containsExpr l then
    let ss := labelsInMatrix lower l m
    let vs := ss.map fun s => (verifyRunnerLabel lower s lc, s)
    let r := checkCombiCompat acc.1 (vs.map fun x => (x.1.1, x.2))
    (r.1, acc.2 ++ vs.flatMap (·.1.2) ++ r.2)
  else
    let v := verifyRunnerLabel lower l lc
    let r := checkCompat acc.1 v.1 l
    (r.1, acc.2 ++ v.2 ++ r.2)

/-- `VisitJobPre` -/
def runnerLabelJob (lower : String → String) (j : Job) (lc : LabelCfg := {}) : List Diag :=
  match j.runsOn with
  | none => []
  | some r =>
    let m := match j.strategy with | some s => s.matrix | none => none
    match r.labels.getD [] with
    | [l] =>
      if containsExpr l then (labelsInMatrix lower l m).flatMap fun s => (verifyRunnerLabel lower s lc).2
      else (verifyRunnerLabel lower l lc).2
    | ls =>
      match r.labelsExpr with
      | some e => (checkLabelAndConflict lc lower m ([], []) e).2
      | none => (ls.foldl (checkLabelAndConflict lc lower m) ([], [])).2

def ruleRunnerLabel (lower : String → String) (w : Workflow) (lc : LabelCfg := {}) : List Diag :=
  (jobsOf w).flatMap (fun j => runnerLabelJob lower j lc)

/-! ### rule_deprecated_commands.go -/

def isReSpace (c : Char) : Bool := c = '\t' || c = '\n' || c = '\x0c' || c = '\r' || c = ' '
def isAsciiLetter (c : Char) : Bool := ('a' ≤ c && c ≤ 'z') || ('A' ≤ c && c ≤ 'Z')

/-- `::(save-state|set-output|set-env)\s+name=[a-zA-Z][a-zA-Z_-]*::\S+` or `::(add-path)::\S+` at the head of `cs`:
the command and what is left after the match -/
def matchDeprecated (cs : List Char) : Option (String × List Char) :=
  if !"::".toList.isPrefixOf cs then none
  else
    let r := cs.drop 2
    let named (cmd : String) : Option (String × List Char) :=
      if !cmd.toList.isPrefixOf r then none
      else
        let r1 := r.drop cmd.length
        let r2 := r1.dropWhile isReSpace
        if r2.length = r1.length then none
        else if !"name=".toList.isPrefixOf r2 then none
        else
          match r2.drop 5 with
          | c :: r3 =>
            if !isAsciiLetter c then none
            else
              let r4 := r3.dropWhile fun c => isAsciiLetter c || c = '_' || c = '-'
              if !"::".toList.isPrefixOf r4 then none
              else
                let r5 := r4.drop 2
                let r6 := r5.dropWhile fun c => !isReSpace c
                if r6.length = r5.length then none else some (cmd, r6)
          | [] => none
    match named "save-state" with
    | some x => some x
    | none =>
      match named "set-output" with
      | some x => some x
      | none =>
        match named "set-env" with
        | some x => some x
        | none =>
          if !"add-path::".toList.isPrefixOf r then none
          else
            let r5 := r.drop 10
            let r6 := r5.dropWhile fun c => !isReSpace c
            if r6.length = r5.length then none else some ("add-path", r6)

/-- `FindAllStringSubmatch(s, -1)`: leftmost, non-overlapping -/
def findDeprecated : Nat → List Char → List String
  | 0, _ => []
  | _, [] => []
  | fuel + 1, c :: cs =>
    match matchDeprecated (c :: cs) with
    | some (cmd, rest) => cmd :: findDeprecated fuel rest
    | none => findDeprecated fuel cs

def ruleDeprecatedCommands (w : Workflow) : List Diag :=
  (jobsOf w).flatMap fun j => (stepsOf j).flatMap fun st =>
    match st.exec with
    | .run e =>
      (match e.run with
       | some r => (findDeprecated (r.value.length + 1) r.value.toList).map fun cmd => ⟨r.pos, "deprecated-commands", "deprecated-command", [cmd]⟩
       | none => [])
    | _ => []

/-! ### rule_events.go (the CRON check is `robfig/cron`: AL.Cron) -/

/-- `%g` of `next.Sub(start).Seconds()` for the values the interval of `checkCron` can take when it is below five minutes: a
whole number of seconds that is not negative (the activations of a parsed schedule are at second 0 of a minute: `60`, `120`,
`180`, `240`, and `0` for a schedule that never fires: both `Next` calls come back with the zero time) is printed in decimal
digits; the saturated negative duration (`Next(start)` finds nothing although `start` is a time after the epoch: the two calls
cannot disagree like this on a schedule the parser builds, the tie `CR` reports it as `cron/one-next-zero` if they ever do) is
`-9.223372036854776e+09`; any other number is outside what the model renders and is marked as such (`ns=…`, not Go's text). -/
def gapText (ns : Int) : String :=
  if 0 ≤ ns ∧ ns % 1000000000 = 0 ∧ ns / 1000000000 < 1000000 then toString (ns / 1000000000).toNat
  else if ns = AL.Cron.minDuration then "-9.223372036854776e+09"
  else "ns=" ++ toString ns

/-- the three `rule.Errorf` of `checkCron`, at `spec.Pos`; the text of the parser's error is not part of the diagnostic -/
def cronDiag (pos : Pos) : AL.Cron.Diag' → Diag
  | .noScheduleAfterZone spec => ⟨pos, "events", "cron-no-schedule", [String.ofList spec]⟩
  | .invalidFormat spec _ => ⟨pos, "events", "cron-invalid", [String.ofList spec]⟩
  | .tooFrequent ns => ⟨pos, "events", "cron-too-frequent", [gapText ns]⟩

/-- `checkCron` on one entry of `schedule`. A schedule in a zone other than UTC (`outOfScope`) parses, and that is all the
model says about it: whether it is too frequent is not modelled (`cronUnmodelled` lists these entries) -/
def cronEntry (zk : List Char → Bool) (s : Str) : List Diag :=
  match AL.Cron.checkCron zk s.value with
  | .diags l => l.map (cronDiag s.pos)
  | .outOfScope _ => []

/-- is the interval of this entry outside the model (a zone other than UTC)? -/
def cronEntryUnmodelled (zk : List Char → Bool) (s : Str) : Bool :=
  match AL.Cron.checkCron zk s.value with
  | .diags _ => false
  | .outOfScope _ => true

/-- the `for _, c := range e.Cron` of `checkEvent` -/
def checkScheduleEvent (zk : List Char → Bool) (cron : List Str) : List Diag := cron.flatMap (cronEntry zk)

def filterEmpty (f : Option Filter) : Bool :=
  match f with
  | none => true
  | some f => (f.values.getD []).isEmpty

/-- `checkExclusiveFilters` -/
def exclusiveFilters (filter ignore : Option Filter) (hook : String) (available : List String) : List Diag :=
  if available.contains hook then
    match filter, ignore with
    | some f, some i =>
      if !filterEmpty (some f) && !filterEmpty (some i) then
        let p := if isBefore f.name.pos i.name.pos then i.name.pos else f.name.pos
        [⟨p, "events", "filters-exclusive", [f.name.value, i.name.value, hook]⟩]
      else []
    | _, _ => []
  else
    (match filter with
     | some f => if !filterEmpty (some f) then [⟨f.name.pos, "events", "filter-not-available", [f.name.value, hook]⟩] else []
     | none => []) ++
    (match ignore with
     | some i => if !filterEmpty (some i) then [⟨i.name.pos, "events", "filter-not-available", [i.name.value, hook]⟩] else []
     | none => [])

/-- `checkWebhookEvent` -/
def checkWebhookEvent (e : WebhookEvent) : List Diag :=
  let hook := e.hook.value
  match AL.Gen.webhookTypes.find? (·.1 = hook) with
  | none => [⟨e.pos, "events", "unknown-webhook", [hook]⟩]
  | some (_, expected) =>
    let types := e.types.getD []
    let dTypes :=
      if expected.isEmpty && !types.isEmpty then [⟨e.hook.pos, "events", "types-not-allowed", [hook]⟩]
      else types.flatMap fun ty => if expected.contains ty.value then [] else [⟨ty.pos, "events", "invalid-activity-type", [ty.value, hook]⟩]
    let wfs := e.workflows.getD []
    let dWf :=
      if hook = "workflow_run" then (if wfs.isEmpty then [⟨e.pos, "events", "workflow-run-no-workflows", []⟩] else [])
      else (if !wfs.isEmpty then [⟨e.pos, "events", "workflows-not-allowed", [hook]⟩] else [])
    dTypes ++ dWf ++
    exclusiveFilters e.paths e.pathsIgnore hook ["push", "pull_request", "pull_request_target"] ++
    exclusiveFilters e.branches e.branchesIgnore hook ["merge_group", "push", "pull_request", "pull_request_target", "workflow_run"] ++
    exclusiveFilters e.tags e.tagsIgnore hook ["push"]

/-- `checkWorkflowCallEvent` -/
def checkCallEvent (lower : String → String) (isNum : String → Bool) (inputs : List CallInput) : List Diag :=
  inputs.flatMap fun i =>
    match i.dflt with
    | none => []
    | some d =>
      (if !containsExpr d then
        (match i.type with
         | .number => if isNum d.value then [] else [⟨d.pos, "events", "call-default-not-number", [i.name.value, d.value]⟩]
         | .boolean => if lower d.value = "true" || lower d.value = "false" then [] else [⟨d.pos, "events", "call-default-not-bool", [i.name.value, d.value]⟩]
         | _ => [])
       else []) ++
      (if (match i.required with | some r => r.value | none => false) then [⟨d.pos, "events", "call-default-and-required", [i.name.value, d.value]⟩] else [])

def dupOptions : List Str → List String → List Diag × List String
  | [], seen => ([], seen)
  | o :: rest, seen =>
    if seen.contains o.value then
      let r := dupOptions rest seen
      ((⟨o.pos, "events", "option-duplicated", [o.value]⟩ : Diag) :: r.1, r.2)
    else dupOptions rest (seen ++ [o.value])

/-- `checkWorkflowDispatchEvent` -/
def checkDispatchEvent (lower : String → String) (isNum : String → Bool) (inputs : List (String × DispatchInput)) (pos : Pos) : List Diag :=
  (inputs.flatMap fun kv =>
    let n := kv.1
    let i := kv.2
    let opts := i.options.getD []
    if i.type = .choice then
      if opts.isEmpty then [⟨i.name.pos, "events", "choice-without-options", [n]⟩]
      else
        let r := dupOptions opts []
        r.1.map (fun d => { d with args := d.args ++ [n] }) ++
        (match i.dflt with
         | some d => if r.2.contains d.value then [] else [⟨d.pos, "events", "default-not-in-options", [d.value, n]⟩]
         | none => [])
    else
      (if !opts.isEmpty then [⟨i.name.pos, "events", "options-without-choice", [n]⟩] else []) ++
      (match i.dflt with
       | some d =>
         (match i.type with
          | .number => if isNum d.value then [] else [⟨d.pos, "events", "dispatch-default-not-number", [i.name.value, d.value]⟩]
          | .boolean => if lower d.value = "true" || lower d.value = "false" then [] else [⟨d.pos, "events", "dispatch-default-not-bool", [n, d.value]⟩]
          | _ => [])
       | none => [])) ++
  (if inputs.length > 10 then [⟨pos, "events", "too-many-inputs", [toString inputs.length]⟩] else [])

/-- `VisitWorkflowPre`: `checkEvent` on every event in the order of `on:` -/
def ruleEvents (lower : String → String) (isNum : String → Bool) (w : Workflow) (lc : LabelCfg := {}) : List Diag :=
  (w.on.getD []).flatMap fun e =>
    match e with
    | .webhook h => checkWebhookEvent h
    | .schedule cron _ => checkScheduleEvent lc.zoneKnown cron
    | .dispatch inputs pos => checkDispatchEvent lower isNum (inputs.getD []) pos
    | .call inputs _ _ _ => checkCallEvent lower isNum (inputs.getD [])
    | _ => []

/-- the positions of the `schedule` entries whose interval the model does not judge (zone other than UTC), in source order:
at these positions a `cron-too-frequent` diagnostic of the implementation has no counterpart in `ruleEvents` -/
def cronUnmodelled (w : Workflow) (lc : LabelCfg := {}) : List Pos :=
  (w.on.getD []).flatMap fun e =>
    match e with
    | .schedule cron _ => (cron.filter (cronEntryUnmodelled lc.zoneKnown)).map (·.pos)
    | _ => []

/-! ### rule_action.go (for a file linted without a project: local actions are not looked up) -/

def indexOfChar (c : Char) : List Char → Nat → Option Nat
  | [], _ => none
  | x :: xs, i => if x = c then some i else indexOfChar c xs (i + 1)

def popularEntry (spec : String) : Option (List (String × String × Bool) × Bool) :=
  match AL.Gen.popularChunks.findSome? (fun ch => ch.find? (·.1 = spec)) with
  | some (_, ins, _, skipInputs, _) => some (ins, skipInputs)
  | none => none

/-- `checkAction` for a bundled action: inputs that are not declared (at the input's name), then the required inputs that
are not supplied, in the order of the sorted ids (all at `uses:`) -/
def checkActionInputs (spec : String) (declared : List (String × String × Bool)) (e : ExecAction) (usesPos : Pos) : List Diag :=
  let given := e.inputs.getD []
  (given.flatMap fun kv =>
    if declared.any (·.1 = kv.1) then [] else [⟨kv.2.name.pos, "action", "input-undefined", [kv.2.name.value, spec]⟩]) ++
  ((declared.foldr (fun d acc => AL.PW.insertSorted d.1 acc) []).flatMap fun id =>
    match declared.find? (·.1 = id) with
    | some (_, name, true) => if given.any (·.1 = id) then [] else [⟨usesPos, "action", "input-missing", [name, spec]⟩]
    | _ => [])

/-- `checkRepoAction` -/
def checkRepoAction (spec : String) (e : ExecAction) (usesPos : Pos) : List Diag :=
  let s := spec.toList
  match indexOfChar '@' s 0 with
  | none => [⟨usesPos, "action", "action-format", [spec, "ref is missing"]⟩]
  | some at_ =>
    let ref := s.drop (at_ + 1)
    let s1 := s.take at_
    match indexOfChar '/' s1 0 with
    | none => [⟨usesPos, "action", "action-format", [spec, "owner is missing"]⟩]
    | some sl =>
      let owner := s1.take sl
      let s2 := s1.drop (sl + 1)
      let repo := match indexOfChar '/' s2 0 with | some i => s2.take i | none => s2
      let dFmt := if owner.isEmpty || repo.isEmpty || ref.isEmpty then
        [(⟨usesPos, "action", "action-format", [spec, "owner and repo and ref should not be empty"]⟩ : Diag)] else []
      dFmt ++
      (match popularEntry spec with
       | none => if AL.Gen.outdatedSpecs.contains spec then [⟨usesPos, "action", "action-outdated", [spec]⟩] else []
       | some (ins, skip) => if skip then [] else checkActionInputs spec ins e usesPos)

/-- `checkDockerAction`; `urlOk` is `url.Parse` succeeding -/
def checkDockerAction (urlOk : String → Bool) (uri : String) (usesPos : Pos) : List Diag :=
  let rest := uri.toList.drop 9
  let (uri', tag, tagExists) : String × String × Bool :=
    match indexOfChar ':' rest 0 with
    | some i => (String.ofList (uri.toList.take (9 + i)), String.ofList (uri.toList.drop (9 + i + 1)), true)
    | none => (uri, "", false)
  (if urlOk uri' then [] else [⟨usesPos, "action", "docker-uri-invalid", [uri', tag]⟩]) ++
  (if tagExists && tag = "" then [⟨usesPos, "action", "docker-tag-empty", [uri']⟩] else [])

def actionStep (urlOk : String → Bool) (st : Step) : List Diag :=
  match st.exec with
  | .action e =>
    (match e.uses with
     | none => []
     | some u =>
       if containsExpr u then []
       else if u.value.startsWith "./" then []
       else if u.value.startsWith "docker://" then checkDockerAction urlOk u.value u.pos
       else checkRepoAction u.value e u.pos)
  | _ => []

def ruleAction (urlOk : String → Bool) (w : Workflow) : List Diag :=
  (jobsOf w).flatMap fun j => (stepsOf j).flatMap (actionStep urlOk)

/-! ### rule_workflow_call.go (without a project: the format of `uses:` only) -/

/-- `isWorkflowCallUsesLocalFormat` -/
def isLocalCallFormat (u : String) : Bool :=
  if !u.startsWith "./" then false
  else
    let r := u.toList.drop 2
    match indexOfChar '@' r 0 with
    | some i => if i > 0 then false else !r.isEmpty
    | none => !r.isEmpty

/-- `isWorkflowCallUsesRepoFormat` -/
def isRepoCallFormat (u : String) : Bool :=
  if u.startsWith "." then false
  else
    let s := u.toList
    match indexOfChar '/' s 0 with
    | none => false
    | some i =>
      if i = 0 then false
      else
        let s1 := s.drop (i + 1)
        match indexOfChar '/' s1 0 with
        | none => false
        | some j =>
          if j = 0 then false
          else
            let s2 := s1.drop (j + 1)
            match indexOfChar '@' s2 0 with
            | none => false
            | some k => if k = 0 then false else !(s2.drop (k + 1)).isEmpty

def workflowCallJob (j : Job) : List Diag :=
  match j.workflowCall with
  | none => []
  | some c =>
    match c.uses with
    | none => []
    | some u =>
      if u.value = "" || containsExpr u then []
      else if isLocalCallFormat u.value then []
      else if isRepoCallFormat u.value then []
      else [⟨u.pos, "workflow-call", "call-format", [u.value]⟩]

def ruleWorkflowCall (w : Workflow) : List Diag := (jobsOf w).flatMap workflowCallJob

/-! ### the tail of `Linter.check` -/

def less (a b : Diag) : Bool := if a.pos.line = b.pos.line then a.pos.col < b.pos.col else a.pos.line < b.pos.line

def insertStable (x : Diag) : List Diag → List Diag
  | [] => [x]
  | y :: ys => if less x y then x :: y :: ys else y :: insertStable x ys

/-- `sort.Stable(ByErrorPosition(all))` within one file -/
def stableSort (l : List Diag) : List Diag := l.foldl (fun acc x => insertStable x acc) []

def ofPErr (e : AL.PW.PErr) : Diag := ⟨e.pos, "syntax-check", e.code, e.args⟩

/-- all diagnostics of the modelled rules, in the order of linter.go's rule list -/
def rules (lower : String → String) (isNum urlOk : String → Bool) (w : Workflow) (lc : LabelCfg := {}) : List Diag :=
  ruleMatrix w ++ ruleCredentials w ++ ruleShellName lower w ++ ruleRunnerLabel lower w lc ++ ruleEvents lower isNum w lc ++ ruleJobNeeds lower w ++
  ruleAction urlOk w ++ ruleEnvVar w ++ ruleId lower w ++ ruleGlob w ++ rulePermissions w ++ ruleWorkflowCall w ++ ruleDeprecatedCommands w ++ ruleIfCond w

/-- `Linter.check` restricted to the parser and the modelled rules -/
def lint (cfg : AL.PW.Cfg) (isNum urlOk : String → Bool) (doc : Node) (lc : LabelCfg := {}) : List Diag :=
  let r := AL.PW.parse cfg doc
  stableSort (r.2.map ofPErr ++ rules cfg.lower isNum urlOk r.1 lc)

end AL.Rules
