import AL.Model.Lexer
/-
  Model of expr_parser.go (and the node types of expr_ast.go): recursive descent over the lazily
  pulled token stream. `p.cur` is the head of the token list. Every function takes `fuel` (recursion
  depth); `parse` supplies `8 * (tokens + 1)`, which is never exhausted (lemma in AL/Lemmas).
-/
namespace AL.Parse
open AL AL.Lex

inductive CmpKind where | less | lessEq | greater | greaterEq | eq | notEq
deriving Repr, DecidableEq, Inhabited

inductive LogKind where | and | or
deriving Repr, DecidableEq, Inhabited

inductive Expr where
  | null
  | bool (b : Bool)
  | int (v : Int)
  | float (lit : List Sym)                 -- the literal's text (the float value itself is not modelled)
  | str (v : List Sym)
  | var (name : List Sym)                  -- as written; `lower` is applied by the consumer
  | call (callee : List Sym) (args : List Expr)
  | objDeref (recv : Expr) (prop : List Sym)
  | arrDeref (recv : Expr)
  | index (recv : Expr) (idx : Expr)
  | not (e : Expr)
  | cmp (k : CmpKind) (l r : Expr)
  | logical (k : LogKind) (l r : Expr)
deriving Repr, Inhabited

inductive ParseWhere where
  | funcArgs | nested | primary | deref | indexClose
deriving Repr, DecidableEq, Inhabited

inductive ParseMsg where
  | unexpected (wh : ParseWhere) (got : TokKind)
  | badInt (lit : List Sym)
  | badFloat (lit : List Sym)
  | remaining (count : Nat) (kinds : List TokKind)
  | fuel                                    -- never produced (see lemma)
deriving Repr, DecidableEq, Inhabited

structure ParseErr where
  msg    : ParseMsg
  off    : Nat
  line   : Nat
  col    : Nat
  lexErr : Option LexErr := none   -- the lexer's error state when the parser gave up (`p.Err()` asks it first)
deriving Repr, DecidableEq, Inhabited

abbrev Toks := List ATok

def endTok : ATok := ⟨⟨.end, [], 0, 1, 1⟩, none, 0⟩

/-- `p.peek()`. -/
def cur (ts : Toks) : ATok := ts.headD endTok

/-- `p.next()`: the parser never advances past an END token. -/
def adv (ts : Toks) : Toks := match ts with
  | [] => []
  | [t] => [t]
  | _ :: rest => rest

def errAt (ts : Toks) (m : ParseMsg) : ParseErr :=
  let t := (cur ts).tok
  ⟨m, t.off, t.line, t.col, (cur ts).err⟩

abbrev PRes := Except ParseErr (Expr × Toks)

/-! ### numeric literals (strconv.ParseInt(s, 0, 32) / ParseFloat(s, 64) on what the lexer lets through) -/

def digitVal (r : Nat) : Nat :=
  if 48 ≤ r ∧ r ≤ 57 then r - 48 else if 97 ≤ r ∧ r ≤ 102 then r - 87 else if 65 ≤ r ∧ r ≤ 70 then r - 55 else 0

def natOfDigits (base : Nat) (ds : List Nat) : Nat := ds.foldl (fun acc d => acc * base + digitVal d) 0

/-- `strconv.ParseInt(lit, 0, 32)` for literals of the shape `-?(0|[1-9][0-9]*|0x[0-9a-fA-F]+)`. -/
def parseIntLit (lit : List Sym) : Option Int :=
  let rs := lit.map (·.r)
  let (neg, body) := match rs with
    | 45 :: rest => (true, rest)
    | _ => (false, rs)
  let mag := match body with
    | 48 :: 120 :: hex => natOfDigits 16 hex
    | _ => natOfDigits 10 body
  -- a BOM that the scanner skipped is still part of the first token's text and makes ParseInt fail
  if rs.any (· ≥ 128) then none
  else if neg then (if mag ≤ 2147483648 then some (-(mag : Int)) else none)
  else (if mag ≤ 2147483647 then some (mag : Int) else none)

/-- Decompose `-?D+(.D+)?([eE]-?D+)?` into (mantissa digits as a natural number, decimal exponent). -/
def floatParts (lit : List Sym) : Nat × Int :=
  let rs0 := match lit.map (·.r) with
    | 45 :: rest => rest
    | l => l
  let intDigits := rs0.takeWhile isNum
  let afterInt := rs0.drop intDigits.length
  let (fracDigits, afterFrac) := match afterInt with
    | 46 :: rest => (rest.takeWhile isNum, rest.drop (rest.takeWhile isNum).length)
    | l => ([], l)
  let exp : Int := match afterFrac with
    | _ :: 45 :: ds => -((natOfDigits 10 ds : Nat) : Int)
    | _ :: ds => ((natOfDigits 10 ds : Nat) : Int)
    | [] => 0
  (natOfDigits 10 (intDigits ++ fracDigits), exp - (fracDigits.length : Int))

/-- `strconv.ParseFloat(lit, 64)` fails (ErrRange) iff the value rounds to ±Inf, i.e. iff
`m · 10^e ≥ 2^1024 − 2^970` (the midpoint between MaxFloat64 and 2^1024). -/
def floatOverflows (lit : List Sym) : Bool :=
  let (m, e) := floatParts lit
  let bound := 2 ^ 1024 - 2 ^ 970
  if lit.any (·.r ≥ 128) then true   -- leading BOM: ParseFloat reports a syntax error
  else if m = 0 then false
  else if e ≥ 0 then
    -- cut off astronomically large exponents before computing the power
    if e ≥ 400 then true else m * 10 ^ e.toNat ≥ bound
  else
    if (-e) ≥ 2000 + (Nat.log2 m : Int) then false else m ≥ bound * 10 ^ (-e).toNat

mutual
def parseLogicalOr : Nat → Toks → PRes
  | 0, ts => .error (errAt ts .fuel)
  | f + 1, ts =>
    match parseLogicalAnd f ts with
    | .error e => .error e
    | .ok (l, ts1) =>
      if (cur ts1).tok.kind ≠ .or then .ok (l, ts1)
      else match parseLogicalOr f (adv ts1) with
        | .error e => .error e
        | .ok (r, ts2) => .ok (.logical .or l r, ts2)

def parseLogicalAnd : Nat → Toks → PRes
  | 0, ts => .error (errAt ts .fuel)
  | f + 1, ts =>
    match parseCompare f ts with
    | .error e => .error e
    | .ok (l, ts1) =>
      if (cur ts1).tok.kind ≠ .and then .ok (l, ts1)
      else match parseLogicalAnd f (adv ts1) with
        | .error e => .error e
        | .ok (r, ts2) => .ok (.logical .and l r, ts2)

def parseCompare : Nat → Toks → PRes
  | 0, ts => .error (errAt ts .fuel)
  | f + 1, ts =>
    match parsePrefix f ts with
    | .error e => .error e
    | .ok (l, ts1) =>
      let k : Option CmpKind := match (cur ts1).tok.kind with
        | .less => some .less | .lessEq => some .lessEq | .greater => some .greater
        | .greaterEq => some .greaterEq | .eq => some .eq | .notEq => some .notEq
        | _ => none
      match k with
      | none => .ok (l, ts1)
      | some k =>
        match parseCompare f (adv ts1) with
        | .error e => .error e
        | .ok (r, ts2) => .ok (.cmp k l r, ts2)

def parsePrefix : Nat → Toks → PRes
  | 0, ts => .error (errAt ts .fuel)
  | f + 1, ts =>
    if (cur ts).tok.kind ≠ .not then parsePostfix f ts
    else match parsePrefix f (adv ts) with
      | .error e => .error e
      | .ok (o, ts1) => .ok (.not o, ts1)

def parsePostfix : Nat → Toks → PRes
  | 0, ts => .error (errAt ts .fuel)
  | f + 1, ts =>
    match parsePrimary f ts with
    | .error e => .error e
    | .ok (e, ts1) => postfixLoop f e ts1

/-- the `for { switch p.peek().Kind … }` of `parsePostfixOp` -/
def postfixLoop : Nat → Expr → Toks → PRes
  | 0, _, ts => .error (errAt ts .fuel)
  | f + 1, ret, ts =>
    match (cur ts).tok.kind with
    | .dot =>
      let ts1 := adv ts
      (match (cur ts1).tok.kind with
      | .star => postfixLoop f (.arrDeref ret) (adv ts1)
      | .ident => postfixLoop f (.objDeref ret (cur ts1).tok.val) (adv ts1)
      | k => .error (errAt ts1 (.unexpected .deref k)))
    | .lbracket =>
      (match parseLogicalOr f (adv ts) with
      | .error e => .error e
      | .ok (idx, ts1) =>
        if (cur ts1).tok.kind ≠ .rbracket then .error (errAt ts1 (.unexpected .indexClose (cur ts1).tok.kind))
        else postfixLoop f (.index ret idx) (adv ts1))
    | _ => .ok (ret, ts)

def parsePrimary : Nat → Toks → PRes
  | 0, ts => .error (errAt ts .fuel)
  | f + 1, ts =>
    let t := (cur ts).tok
    match t.kind with
    | .ident =>
      let ts1 := adv ts
      if (cur ts1).tok.kind = .lparen then
        let ts2 := adv ts1
        if (cur ts2).tok.kind = .rparen then .ok (.call t.val [], adv ts2)
        else match argsLoop f [] ts2 with
          | .error e => .error e
          | .ok (args, ts3) => .ok (.call t.val args, ts3)
      else
        let name : List Nat := t.val.map (·.r)
        if name = [110, 117, 108, 108] then .ok (.null, ts1)              -- "null"
        else if name = [116, 114, 117, 101] then .ok (.bool true, ts1)    -- "true"
        else if name = [102, 97, 108, 115, 101] then .ok (.bool false, ts1) -- "false"
        else .ok (.var t.val, ts1)
    | .lparen =>
      (match parseLogicalOr f (adv ts) with
      | .error e => .error e
      | .ok (nested, ts1) =>
        if (cur ts1).tok.kind = .rparen then .ok (nested, adv ts1)
        else .error (errAt ts1 (.unexpected .nested (cur ts1).tok.kind)))
    | .int =>
      (match parseIntLit t.val with
      | some i => .ok (.int i, adv ts)
      | none => .error (errAt ts (.badInt t.val)))
    | .float =>
      if floatOverflows t.val then .error (errAt ts (.badFloat t.val)) else .ok (.float t.val, adv ts)
    | .string =>
      -- strip the quotes, unescape ''
      let inner := (t.val.drop 1).dropLast
      .ok (.str (unescape inner), adv ts)
    | k => .error (errAt ts (.unexpected .primary k))
where
  unescape : List Sym → List Sym
    | a :: b :: rest => if a.r = 39 ∧ b.r = 39 then a :: unescape rest else a :: unescape (b :: rest)
    | l => l

/-- `LoopArgs:` of `parseIdent` -/
def argsLoop : Nat → List Expr → Toks → Except ParseErr (List Expr × Toks)
  | 0, _, ts => .error (errAt ts .fuel)
  | f + 1, acc, ts =>
    match parseLogicalOr f ts with
    | .error e => .error e
    | .ok (arg, ts1) =>
      match (cur ts1).tok.kind with
      | .comma => argsLoop f (acc ++ [arg]) (adv ts1)
      | .rparen => .ok (acc ++ [arg], adv ts1)
      | k => .error (errAt ts1 (.unexpected .funcArgs k))
end

inductive ExprErr where
  | lex (e : LexErr)
  | parse (e : ParseErr)
deriving Repr, DecidableEq, Inhabited

/-- Kinds of the remaining tokens up to (not including) END, for the "did not reach end" message. -/
def remainingKinds : Toks → List TokKind
  | [] => []
  | t :: rest => if t.tok.kind = .end then [] else t.tok.kind :: remainingKinds rest

/-- `ExprParser.Parse` on the lazily lexed stream. The lexer's error wins when it has been recorded by
the time parsing stops (`p.Err()`), i.e. when the token at `p.cur` carries it. -/
def parseToks (ts : Toks) : Except ExprErr Expr :=
  let fuel := 8 * (ts.length + 1)
  match parseLogicalOr fuel ts with
  | .error e =>
    match e.lexErr with
    | some le => .error (.lex le)
    | none => .error (.parse e)
  | .ok (root, rest) =>
    match (cur rest).err with
    | some le => .error (.lex le)
    | none =>
      if (cur rest).tok.kind ≠ .end then
        let ks := remainingKinds rest
        .error (.parse (errAt rest (.remaining ks.length ks)))
      else .ok root

end AL.Parse
