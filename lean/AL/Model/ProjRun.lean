import AL.Model.ProjLint
/-
  A RUN: several files of one project linted by one `Linter.LintFiles` (linter.go). All files of a project share the two
  caches (`LocalReusableWorkflowCacheFactory.GetCache(proj)`, `LocalActionsCacheFactory.GetCache(proj)`); each file is
  checked by its own set of rule instances (`Linter.check`), which differ only in the path of the linted file
  (`convWorkflowPathToSpec`, here `File.self`).

  The model is the SEQUENTIAL schedule: the files are linted one after the other in the order of the list, the two caches
  threaded through. Each file first registers its own interface when it is a reusable workflow
  (`RuleWorkflowCall.VisitWorkflowPre` → `WriteWorkflowCallEvent`, which keeps an entry that is already there), then
  its jobs / steps look callees up, filling the caches from disk (AL.ProjCall / AL.ProjAction, unchanged).
  Parallel schedules (errgroup in `LintFiles`): as far as the caches are concerned they are covered by the cache theorems
  of AL/Props/C10Once.lean (`Same`, `simulateJobs_same`, `prefilled_cache_same_diagnostics`: a look-up answers alike
  whether the entry is already there or read from disk, `FindMetadata` being one critical section), otherwise by the
  harness (runs with GOMAXPROCS / file order varied).
-/
namespace AL.ProjRun
open AL AL.Ast AL.CallMeta AL.ProjCall

/-- one file of the run: its spec inside the project (`convWorkflowPathToSpec`, `none` when it has none) and its AST -/
structure File where
  self : Option String := none
  wf : Workflow

/-- what all files of the run share: the project on disk -/
structure Proj where
  hasProject : Bool := true
  disk : String → OnDisk := fun _ => .missing
  actions : AL.ProjAction.Env := {}

def envOf (p : Proj) (f : File) : ProjCall.Env := { hasProject := p.hasProject, disk := p.disk, self := f.self }

/-- `RuleWorkflowCall.VisitWorkflowPre` + `WriteWorkflowCallEvent` on a cache that may already be filled: an existing
entry (an interface or a remembered failure) is kept -/
def register (env : ProjCall.Env) (c : Cache) (w : Workflow) : Cache :=
  match env.hasProject, env.self, fromEvents (w.on.getD []) with
  | true, some spec, some m =>
    (match cacheGet c spec with
     | some _ => c
     | none => cachePut c spec (some m))
  | _, _, _ => c

/-- the cache after the jobs of a file (the same walk as `ProjCall.simulateJobs`, which does not return it) -/
def jobsCache (env : ProjCall.Env) (lower : String → String) (jobs : List (String × Job)) :
    List (String × Job) → Cache → Cache
  | [], c => c
  | (_, j) :: rest, c =>
    jobsCache env lower jobs rest (callLookup env j (needsLookups env lower jobs j (wcJob env c j).1).cache).cache

/-- the reusable-workflow side of one file of the run: the cache afterwards, and the per-job results -/
def callsFile (p : Proj) (lower : String → String) (c : Cache) (f : File) : Cache × List (String × JobView) :=
  (jobsCache (envOf p f) lower (f.wf.jobs.getD []) (f.wf.jobs.getD []) (register (envOf p f) c f.wf),
   simulateJobs (envOf p f) lower (f.wf.jobs.getD []) (f.wf.jobs.getD []) (register (envOf p f) c f.wf))

/-- the run, reusable-workflow side: per file, what `ProjCall.simulate` gives for a file linted alone -/
def callsRun (p : Proj) (lower : String → String) : List File → Cache → List (List (String × JobView))
  | [], _ => []
  | f :: rest, c => (callsFile p lower c f).2 :: callsRun p lower rest (callsFile p lower c f).1

/-- a file linted alone: a fresh cache -/
def callsAlone (p : Proj) (lower : String → String) (f : File) : List (String × JobView) :=
  simulate (envOf p f) lower f.wf

/-! ### local actions -/

/-- `ProjAction.simulate` from a given cache -/
def actionsFile (p : Proj) (c : AL.ProjAction.Cache) (f : File) : AL.ProjAction.Out :=
  (AL.Rules.jobsOf f.wf).foldl (fun o j => AL.ProjAction.stepsLoop p.actions (AL.Rules.stepsOf j) o) { cache := c }

/-- the run, local-action side: per file the diagnostics of rule action and of the expression rule's look-ups -/
def actionsRun (p : Proj) : List File → AL.ProjAction.Cache → List (List AL.ProjAction.Diag × List AL.RuleExpr.Diag)
  | [], _ => []
  | f :: rest, c =>
    ((actionsFile p c f).action, (actionsFile p c f).expr) :: actionsRun p rest (actionsFile p c f).cache

def actionsAlone (p : Proj) (f : File) : List AL.ProjAction.Diag × List AL.RuleExpr.Diag :=
  ((AL.ProjAction.simulate p.actions f.wf).action, (AL.ProjAction.simulate p.actions f.wf).expr)

/-- the diagnostics the project case adds to one file, as a flat pair (rule workflow-call + rule action; expression rule) -/
structure FileDiags where
  rules : List AL.Rules.Diag
  expr : List AL.RuleExpr.Diag

def diagsOf (calls : List (String × JobView)) (acts : List AL.ProjAction.Diag × List AL.RuleExpr.Diag) : FileDiags :=
  { rules := calls.flatMap (·.2.wc) ++ acts.1, expr := calls.flatMap (·.2.exprErrs) ++ acts.2 }

end AL.ProjRun
