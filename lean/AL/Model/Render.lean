import AL.Model.Hex
/-
  Model of error.go (C16): the one-line header `file:line:col: message [kind]`, the shipped
  problem-matcher pattern as an explicit leftmost / lazy backtracking search (plain output, i.e. the
  optional colour escapes of the pattern match the empty string), and the snippet renderer
  (`getLine`, `getIndicator`, the guards of `PrettyPrint` / `GetTemplateFields`) over bytes.
-/
namespace AL.Render

structure Diag where
  file : List Char
  line : Nat
  col  : Nat
  msg  : List Char
  kind : List Char
deriving Repr, DecidableEq, Inhabited

def natChars (n : Nat) : List Char := (toString n).toList

/-- `Error.Error()` / the first line of `PrettyPrint` without colours, without the final newline -/
def header (d : Diag) : List Char :=
  d.file ++ [':'] ++ natChars d.line ++ [':'] ++ natChars d.col ++ [':', ' '] ++ d.msg ++ [' ', '['] ++ d.kind ++ [']']

/-- `.` of the pattern: any character except line terminators -/
def dot (c : Char) : Bool := c ≠ '\n' && c ≠ '\r' && c.toNat ≠ 0x2028 && c.toNat ≠ 0x2029

def isDigit (c : Char) : Bool := '0' ≤ c && c ≤ '9'

/-- `(\d+)` greedy: the digits and the rest -/
def takeDigits : List Char → List Char × List Char
  | c :: cs => if isDigit c then let (d, r) := takeDigits cs; (c :: d, r) else ([], c :: cs)
  | [] => ([], [])

/-- ` \[(.+?)\]$` at the very start of `s`: the kind -/
def matchKind (s : List Char) : Option (List Char) :=
  match s with
  | ' ' :: '[' :: rest =>
    match rest.reverse with
    | ']' :: revKind => let k := revKind.reverse; if !k.isEmpty && k.all dot then some k else none
    | _ => none
  | _ => none

/-- `(.+?) \[(.+?)\]$`: the shortest non-empty message prefix after which ` [kind]` closes the line -/
def matchMsg : List Char → List Char → Option (List Char × List Char)
  | acc, [] => none
  | acc, c :: rest =>
    if !dot c then none
    else
      let acc' := acc ++ [c]
      match matchKind rest with
      | some k => some (acc', k)
      | none => matchMsg acc' rest

/-- after a candidate file: `:(\d+):(\d+): (.+?) \[(.+?)\]$`.
Greedy `\d+` never needs to give digits back here: the next pattern character is `:`. -/
def matchTail (s : List Char) : Option (Nat × Nat × List Char × List Char) :=
  match s with
  | ':' :: r1 =>
    let (l, r2) := takeDigits r1
    if l.isEmpty then none else
    match r2 with
    | ':' :: r3 =>
      let (c, r4) := takeDigits r3
      if c.isEmpty then none else
      match r4 with
      | ':' :: ' ' :: r5 =>
        (matchMsg [] r5).map fun (m, k) => ((String.ofList l).toNat!, (String.ofList c).toNat!, m, k)
      | _ => none
    | _ => none
  | _ => none

/-- `^(.+?)` then the tail: the shortest non-empty file prefix for which the rest of the pattern matches -/
def matchFile : List Char → List Char → Option (List Char × Nat × Nat × List Char × List Char)
  | _, [] => none
  | acc, c :: rest =>
    if !dot c then none
    else
      let acc' := acc ++ [c]
      match matchTail rest with
      | some (l, co, m, k) => some (acc', l, co, m, k)
      | none => matchFile acc' rest

/-- the problem matcher on one plain output line -/
def matcher (line : List Char) : Option Diag :=
  (matchFile [] line).map fun (f, l, c, m, k) => ⟨f, l, c, m, k⟩

/-! ### snippet -/

/-- `bufio.Scanner` line splitting: lines end at `\n`, one trailing `\r` is dropped, a final line
without `\n` counts when non-empty. Lines longer than the scanner's buffer stop the scan. -/
def maxToken : Nat := 65536

def splitLines (src : List Nat) : List (List Nat) :=
  let rec go : List Nat → List Nat → List (List Nat)
    | [], cur => if cur.isEmpty then [] else [cur]
    | b :: rest, cur => if b = 10 then cur :: go rest [] else go rest (cur ++ [b])
  (go src []).map fun l => if l.getLast? = some 13 then l.dropLast else l

/-- `getLine`: the `n`-th line (1-based); `none` when there is no such line or a line before it (or it)
exceeds the scanner's token limit -/
def getLine (src : List Nat) (n : Nat) : Option (List Nat) :=
  if n = 0 then none else
  let ls := splitLines src
  if (ls.take n).any (fun l => l.length ≥ maxToken) then none else ls[n - 1]?

/-- is a snippet shown? (`PrettyPrint`: `len(source) > 0 && e.Line > 0`, the line exists, `len(line) ≥ col-1`) -/
def snippetLine (src : List Nat) (line col : Nat) : Option (List Nat) :=
  if src.isEmpty || line = 0 then none
  else match getLine src line with
    | none => none
    | some l => if l.length < col - 1 then none else some l

/-- number of leading spaces of the indicator = display width of `line[:col-1]`; `width` is go-runewidth
on a byte prefix (parameter). The caret is printed only for `col ≥ 1`. -/
def caretColumn (width : List Nat → Nat) (l : List Nat) (col : Nat) : Option Nat :=
  if col = 0 then none else some (width (l.take (col - 1)))

/-- the runes after the column that the underline covers: up to the first space, tab, CR, LF or the end of the line
(`ReadRune` on invalid UTF-8 yields U+FFFD, one byte) -/
def underlineWidth (runeWidth : Nat → Nat) : List AL.Sym → Nat
  | [] => 0
  | s :: rest =>
    if s.r = 32 || s.r = 9 || s.r = 10 || s.r = 13 then 0
    else runeWidth s.r + underlineWidth runeWidth rest

/-- `(*Error).getIndicator`: `strWidth` is go-runewidth's `StringWidth` on the bytes before the column, `runeWidth` its
`RuneWidth`; the caller guarantees `col - 1 ≤ len(line)` -/
def indicator (strWidth : List Nat → Nat) (runeWidth : Nat → Nat) (l : List Nat) (col : Nat) : List Char :=
  if col = 0 then []
  else
    let start := col - 1
    let uw := underlineWidth runeWidth (AL.decodeUtf8 (l.drop start))
    List.replicate (strWidth (l.take start)) ' ' ++ ['^'] ++ List.replicate (uw - 1) '~'

end AL.Render
