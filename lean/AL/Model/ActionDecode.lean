import AL.Model.CallMeta
import AL.Model.ProjAction
/-
  action_metadata.go: decoding a local action's `action.yml` into `ActionMetadata` — `yaml.Unmarshal(b, &meta)` with the
  two `UnmarshalYAML` methods (`ActionMetadataInputs`, `ActionMetadataOutputs`) and yaml.v3's decoding of the other fields
  (`string`, nested structs, `[]any`, `map[string]any`), on the `yaml.Node` tree. Re-uses the decoding primitives of
  AL.CallMeta (`structDecode`, `decBool`, `decStr`, `decStrPtr`); alias / `!!binary` / merge key: `unsupported`.
-/
namespace AL.ActionDecode
open AL.Yaml AL.PW AL.CallMeta

/-! ### `any` targets -/

mutual
/-- decoding into `interface{}`: fails only on a repeated key or a key that is not a scalar, anywhere below -/
def anyOk : Node → D Unit
  | .mk kind tag _ _ _ _ content =>
    match kind with
    | .alias => .error .unsupported
    | .scalar => if tag = "!!binary" then .error .unsupported else .ok ()
    | .sequence => anySeq content
    | .mapping => if hasDupKey (pairs content) then .error .decode else anyMap content
    | .document => .error .unsupported
def anySeq : List Node → D Unit
  | [] => .ok ()
  | c :: cs => match anyOk c with
    | .error e => .error e
    | .ok _ => anySeq cs
def anyMap : List Node → D Unit
  | k :: v :: rest =>
    if k.kind = .alias then .error .unsupported
    else if isMerge k then .error .unsupported
    else if k.kind ≠ .scalar then .error .decode
    else match anyOk v with
      | .error e => .error e
      | .ok _ => anyMap rest
  | _ => .ok ()
end

/-- a `[]any` field: `none` = nil -/
def decAnySlice (n : Node) : D (Option Nat) :=
  match n.kind with
  | .alias => .error .unsupported
  | .sequence => (anySeq n.content).map fun _ => some n.content.length
  | .scalar => if n.tag = "!!null" then .ok none else .error .decode
  | _ => .error .decode

def keysAreStrings : List (Node × Node) → D Unit
  | [] => .ok ()
  | (k, _) :: rest => match decStr k with
    | .error e => .error e
    | .ok _ => keysAreStrings rest

/-- a `map[string]any` field: is it non-nil? -/
def decAnyMap (n : Node) : D Bool :=
  match n.kind with
  | .alias => .error .unsupported
  | .mapping =>
    if hasDupKey (pairs n.content) then .error .decode
    else match keysAreStrings (pairs n.content) with
      | .error e => .error e
      | .ok _ => (anyMap n.content).map fun _ => true
  | .scalar => if n.tag = "!!null" then .ok false else .error .decode
  | _ => .error .decode

/-! ### inputs and outputs -/

structure InSt where
  required : Bool := false
  dflt : Option String := none

def setIn (st : InSt) (name : String) (v : Node) : D InSt :=
  match name with
  | "required" => (decBool v).map fun b => { st with required := b }
  | "default" => (decStrPtr v).map fun d => { st with dflt := d }
  | _ => .ok st

/-- the anonymous struct `actionInputMetadata`: required and no default -/
def decInput (v : Node) : D Bool :=
  (structDecode ["required", "default"] setIn {} v).map fun st => st.required && st.dflt.isNone

/-- `ActionMetadataInputs.UnmarshalYAML`: an id given twice (up to letter case) is an error -/
def decInputsLoop (cfg : Cfg) : List (Node × Node) → List (String × String × Bool) → D (List (String × String × Bool))
  | [], m => .ok m
  | (k, v) :: rest, m =>
    match decInput v with
    | .error e => .error e
    | .ok r =>
      if m.any (·.1 = cfg.lower k.value) then .error .decode
      else decInputsLoop cfg rest (m ++ [(cfg.lower k.value, k.value, r)])

def decInputs (cfg : Cfg) (n : Node) : D (List (String × String × Bool)) :=
  match n.kind with
  | .alias => .error .unsupported
  | .mapping => decInputsLoop cfg (pairs n.content) []
  | _ => .error .decode

def decOutputsLoop (cfg : Cfg) : List (Node × Node) → List (String × String) → D (List (String × String))
  | [], m => .ok m
  | (k, _) :: rest, m =>
    if m.any (·.1 = cfg.lower k.value) then .error .decode
    else decOutputsLoop cfg rest (m ++ [(cfg.lower k.value, k.value)])

def decOutputs (cfg : Cfg) (n : Node) : D (List (String × String)) :=
  match n.kind with
  | .alias => .error .unsupported
  | .mapping => decOutputsLoop cfg (pairs n.content) []
  | _ => .error .decode

/-! ### `runs`, `branding`, the whole file -/

def setRuns (st : AL.ProjAction.Runs) (name : String) (v : Node) : D AL.ProjAction.Runs :=
  match name with
  | "using" => (decStr v).map fun s => { st with using_ := s }
  | "main" => (decStr v).map fun s => { st with main := s }
  | "pre" => (decStr v).map fun s => { st with pre := s }
  | "pre-if" => (decStr v).map fun s => { st with preIf := s }
  | "post" => (decStr v).map fun s => { st with post := s }
  | "post-if" => (decStr v).map fun s => { st with postIf := s }
  | "image" => (decStr v).map fun s => { st with image := s }
  | "pre-entrypoint" => (decStr v).map fun s => { st with preEntrypoint := s }
  | "entrypoint" => (decStr v).map fun s => { st with entrypoint := s }
  | "post-entrypoint" => (decStr v).map fun s => { st with postEntrypoint := s }
  | "steps" => (decAnySlice v).map fun l => { st with stepsNil := l.isNone, stepsNonEmpty := decide (0 < l.getD 0) }
  | "args" => (decAnySlice v).map fun l => { st with argsNil := l.isNone }
  | "env" => (decAnyMap v).map fun b => { st with envNil := !b }
  | _ => .ok st

def runsFields : List String :=
  ["using", "main", "pre", "pre-if", "post", "post-if", "steps", "image", "pre-entrypoint", "entrypoint", "post-entrypoint", "args", "env"]

structure Branding where
  icon : String := ""
  color : String := ""

def setBranding (st : Branding) (name : String) (v : Node) : D Branding :=
  match name with
  | "icon" => (decStr v).map fun s => { st with icon := s }
  | "color" => (decStr v).map fun s => { st with color := s }
  | _ => .ok st

/-- what `yaml.Unmarshal(b, &meta)` fills in -/
structure Decoded where
  name : String := ""
  description : String := ""
  inputs : List (String × String × Bool) := []
  outputs : List (String × String) := []
  runs : AL.ProjAction.Runs := {}
  branding : Branding := {}

def setMeta (cfg : Cfg) (st : Decoded) (name : String) (v : Node) : D Decoded :=
  match name with
  | "name" => (decStr v).map fun s => { st with name := s }
  | "description" => (decStr v).map fun s => { st with description := s }
  | "inputs" => (viaUnmarshaler (decInputs cfg) v).map fun i => { st with inputs := i }
  | "outputs" => (viaUnmarshaler (decOutputs cfg) v).map fun o => { st with outputs := o }
  | "runs" => (structDecode runsFields setRuns {} v).map fun r => { st with runs := r }
  | "branding" => (structDecode ["icon", "color"] setBranding {} v).map fun b => { st with branding := b }
  | _ => .ok st

/-- the metadata of the document node of `action.yml` -/
def fromDoc (cfg : Cfg) (doc : Node) : D Decoded :=
  match doc.content with
  | [] => .ok {}
  | root :: _ => structDecode ["name", "description", "inputs", "outputs", "runs", "branding"] (setMeta cfg) {} root

end AL.ActionDecode
