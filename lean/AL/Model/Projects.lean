/-
  project.go `Projects.At` (after the repair): the project a file belongs to is the INNERMOST directory above it that is
  a repository root (has `.github/workflows` and `.git`); projects already seen are only reused when their root is that
  very directory. Paths are absolute, cleaned component lists; the file system is the predicate `isRoot`.
-/
namespace AL.Projects

/-- the path given as reversed component list (innermost component first): the directory itself, then its parent, … -/
def findRootRev (isRoot : List String → Bool) : List String → Option (List String)
  | [] => if isRoot [] then some [] else none
  | c :: up => if isRoot (c :: up).reverse then some (c :: up).reverse else findRootRev isRoot up

/-- `findProjectRoot`: the innermost directory at or above `dir` that is a repository root -/
def findRoot (isRoot : List String → Bool) (dir : List String) : Option (List String) :=
  findRootRev isRoot dir.reverse

/-- the cache of projects seen so far: their roots, in the order they were first met -/
abbrev Known := List (List String)

/-- `Projects.At(path)`: root of the project (if any) and the new cache -/
def lookup (isRoot : List String → Bool) (known : Known) (path : List String) : Option (List String) × Known :=
  match findRoot isRoot path with
  | none => (none, known)
  | some r => if known.contains r then (some r, known) else (some r, known ++ [r])

/-- a sequence of lookups from a given cache -/
def atAll (isRoot : List String → Bool) : Known → List (List String) → List (Option (List String)) × Known
  | known, [] => ([], known)
  | known, p :: ps =>
    let r := lookup isRoot known p
    let r' := atAll isRoot r.2 ps
    (r.1 :: r'.1, r'.2)

end AL.Projects
