/-
  error.go: how the `Message` of a diagnostic comes into being. `errorAt` / `errorfAt` are the only places that build an
  `Error` (regenerated fact AL.Gen.errorLiterals), and both pass the text through `lineBreakEscaper` =
  `strings.NewReplacer("\n", "\\n", "\r", "\\r")` — with single-byte old strings: every occurrence, left to right.
-/
namespace AL.Msg

/-- `strings.NewReplacer` whose old strings are single characters -/
def replaceChars (pairs : List (Char × List Char)) : List Char → List Char
  | [] => []
  | c :: cs => (match pairs.find? (·.1 = c) with | some p => p.2 | none => [c]) ++ replaceChars pairs cs

def escaperPairs : List (Char × List Char) := [('\n', ['\\', 'n']), ('\r', ['\\', 'r'])]

/-- `lineBreakEscaper.Replace` -/
def escape (s : List Char) : List Char := replaceChars escaperPairs s

end AL.Msg
