import AL.Model.RuleExpr
/-
  The project case of LOCAL ACTIONS: rule_action.go `checkLocalAction` (`checkLocalActionMetadata`, `checkLocalActionRuns`
  with its Docker / composite / JavaScript branches, `checkRunsFileExists`, `checkInvalidRunsProps`, `checkAction` with the
  "defined at" description) and rule_expression.go `getActionOutputsType` for a `./` spec, with `LocalActionsCache`
  between the steps: the metadata of an action is checked where it is FIRST used (`cached == false`), an unparseable
  metadata file is reported once, an action without a metadata file never.

  What `action.yml` decodes to is a parameter (`disk`; the decoding by yaml.v3 is not modelled here), so is the file
  system (`fileExists dir file`) and membership in the branding tables (evaluated by the harness on the real tables).
-/
namespace AL.ProjAction
open AL AL.Ast

abbrev Pos := AL.Yaml.Pos
abbrev Diag := AL.Rules.Diag

/-- `ActionMetadataRuns` as far as the checks read it -/
structure Runs where
  using_ : String := ""
  main : String := ""
  pre : String := ""
  preIf : String := ""
  post : String := ""
  postIf : String := ""
  image : String := ""
  preEntrypoint : String := ""
  entrypoint : String := ""
  postEntrypoint : String := ""
  /-- `r.Steps == nil` -/
  stepsNil : Bool := true
  /-- `len(r.Steps) > 0` -/
  stepsNonEmpty : Bool := false
  argsNil : Bool := true
  envNil : Bool := true
deriving Repr

structure ActionMeta where
  name : String := ""
  description : String := ""
  icon : String := ""
  /-- `BrandingIcons[strings.ToLower(icon)]` exists -/
  iconKnown : Bool := true
  color : String := ""
  colorKnown : Bool := true
  runs : Runs := {}
  /-- id ↦ (name, required) -/
  inputs : List (String × String × Bool) := []
  /-- id ↦ name -/
  outputs : List (String × String) := []
  /-- `meta.Dir()`, `meta.Path()` -/
  dir : String := ""
  path : String := ""
deriving Repr

inductive OnDisk where
  | absent                 -- no action.yml / action.yaml in the directory: silently nothing
  | broken (dir : String)  -- the metadata file does not decode
  | ok (m : ActionMeta)
deriving Repr

structure Env where
  hasProject : Bool := true
  disk : String → OnDisk := fun _ => .absent
  /-- `os.Stat(filepath.Join(dir, filepath.FromSlash(file)))` does not fail with ErrNotExist -/
  fileExists : String → String → Bool := fun _ _ => true
  /-- `filepath.Base(filepath.FromSlash(image))` -/
  baseName : String → String := id

abbrev Cache := List (String × Option ActionMeta)

def cacheGet (c : Cache) (spec : String) : Option (Option ActionMeta) :=
  match c.find? (·.1 = spec) with
  | some e => some e.2
  | none => none

inductive Found where
  | nothing
  | err (dir : String)
  | found (m : ActionMeta) (cached : Bool)

/-- `LocalActionsCache.FindMetadata`: the answer … -/
def answer (env : Env) (c : Cache) (spec : String) : Found :=
  if !env.hasProject || !spec.startsWith "./" then .nothing
  else match cacheGet c spec with
    | some (some m) => .found m true
    | some none => .nothing
    | none =>
      match env.disk spec with
      | .ok m => .found m false
      | .absent => .nothing
      | .broken dir => .err dir

/-- … and the cache afterwards -/
def remember (env : Env) (c : Cache) (spec : String) : Cache :=
  if !env.hasProject || !spec.startsWith "./" then c
  else match cacheGet c spec with
    | some _ => c
    | none => (spec, match env.disk spec with | .ok m => some m | _ => none) :: c

/-! ### rule_action.go -/

def isImageOnDockerRegistry (image : String) : Bool :=
  image.startsWith "docker://" || image.startsWith "gcr.io/" || image.startsWith "pkg.dev/" ||
  image.startsWith "ghcr.io/" || image.startsWith "docker.io/"

/-- `checkRunsFileExists` -/
def runsFile (env : Env) (file dir prop name : String) (pos : Pos) : List Diag :=
  if file = "" then []
  else if env.fileExists dir file then []
  else [⟨pos, "action", "runs-file-missing", [file, dir, prop, name]⟩]

/-- `checkInvalidRunsProps` -/
def invalidProps (r : Runs) (ty name dir : String) (props : List String) (pos : Pos) : List Diag :=
  props.flatMap fun prop =>
    let invalid :=
      (prop = "main" && r.main ≠ "") || (prop = "pre" && r.pre ≠ "") || (prop = "pre-if" && r.preIf ≠ "") ||
      (prop = "post" && r.post ≠ "") || (prop = "post-if" && r.postIf ≠ "") || (prop = "steps" && r.stepsNonEmpty) ||
      (prop = "image" && r.image ≠ "") || (prop = "pre-entrypoint" && r.preEntrypoint ≠ "") ||
      (prop = "entrypoint" && r.entrypoint ≠ "") || (prop = "post-entrypoint" && r.postEntrypoint ≠ "") ||
      (prop = "args" && !r.argsNil) || (prop = "env" && !r.envNil)
    if invalid then [⟨pos, "action", "runs-prop-not-allowed", [prop, name, ty, dir]⟩] else []

def missingProp (prop ty name dir : String) (pos : Pos) : Diag := ⟨pos, "action", "runs-prop-required", [prop, name, ty, dir]⟩

/-- `checkLocalDockerActionRuns` -/
def dockerRuns (env : Env) (r : Runs) (dir name : String) (pos : Pos) : List Diag :=
  (if r.image = "" then [missingProp "image" "Docker" name dir pos]
   else if !isImageOnDockerRegistry r.image then
     runsFile env r.image dir "image" name pos ++
     (if env.baseName r.image ≠ "Dockerfile" then [⟨pos, "action", "image-not-dockerfile", [r.image, name, dir]⟩] else [])
   else []) ++
  runsFile env r.preEntrypoint dir "pre-entrypoint" name pos ++
  runsFile env r.entrypoint dir "entrypoint" name pos ++
  runsFile env r.postEntrypoint dir "post-entrypoint" name pos ++
  invalidProps r "Docker" name dir ["main", "pre", "pre-if", "post", "post-if", "steps"] pos

/-- `checkLocalCompositeActionRuns` -/
def compositeRuns (r : Runs) (dir name : String) (pos : Pos) : List Diag :=
  (if r.stepsNil then [missingProp "steps" "Composite" name dir pos] else []) ++
  invalidProps r "Composite" name dir
    ["main", "pre", "pre-if", "post", "post-if", "image", "pre-entrypoint", "entrypoint", "post-entrypoint", "args", "env"] pos

/-- `checkLocalJavaScriptActionRuns` -/
def jsRuns (env : Env) (r : Runs) (dir name : String) (pos : Pos) : List Diag :=
  (if r.main = "" then [missingProp "main" "JavaScript" name dir pos] else runsFile env r.main dir "main" name pos) ++
  runsFile env r.pre dir "pre" name pos ++
  (if r.pre = "" && r.preIf ≠ "" then [⟨pos, "action", "pre-required", [name, dir]⟩] else []) ++
  runsFile env r.post dir "post" name pos ++
  (if r.post = "" && r.postIf ≠ "" then [⟨pos, "action", "post-required", [name, dir]⟩] else []) ++
  invalidProps r "JavaScript" name dir ["steps", "image", "pre-entrypoint", "entrypoint", "post-entrypoint", "args", "env"] pos

/-- `checkLocalActionRuns` -/
def runsDiags (env : Env) (m : ActionMeta) (pos : Pos) : List Diag :=
  let r := m.runs
  if r.using_ = "" then [⟨pos, "action", "runs-using-missing", [m.name, m.dir]⟩]
  else if r.using_ = "docker" then dockerRuns env r m.dir m.name pos
  else if r.using_ = "composite" then compositeRuns r m.dir m.name pos
  else if r.using_ = "node20" then jsRuns env r m.dir m.name pos
  else
    [⟨pos, "action", "runs-using-invalid", [r.using_, m.name, m.dir]⟩] ++
    (if r.using_.startsWith "node" then jsRuns env r m.dir m.name pos else [])

/-- `checkLocalActionMetadata` -/
def metadataDiags (env : Env) (m : ActionMeta) (pos : Pos) : List Diag :=
  (if m.name = "" then [⟨pos, "action", "meta-name-required", [m.path]⟩] else []) ++
  (if m.description = "" then [⟨pos, "action", "meta-description-required", [m.name, m.path]⟩] else []) ++
  (if m.icon ≠ "" && !m.iconKnown then [⟨pos, "action", "meta-icon", [m.icon, m.name, m.path]⟩] else []) ++
  (if m.color ≠ "" && !m.colorKnown then [⟨pos, "action", "meta-color", [m.color, m.name, m.path]⟩] else []) ++
  runsDiags env m pos

/-- `checkAction` for a local action (`describe` = name "defined at" spec) -/
def inputDiags (m : ActionMeta) (spec : String) (e : ExecAction) (pos : Pos) : List Diag :=
  let given := e.inputs.getD []
  let names := AL.PW.sortStrings (m.inputs.map (·.2.1))
  let required := AL.PW.sortStrings ((m.inputs.filter (·.2.2)).map (·.2.1))
  (given.flatMap fun kv =>
    if m.inputs.any (·.1 = kv.1) then []
    else [⟨kv.2.name.pos, "action", "local-input-undefined", [kv.2.name.value, m.name, spec] ++ names⟩]) ++
  ((AL.PW.sortStrings (m.inputs.map (·.1))).flatMap fun id =>
    match m.inputs.find? (·.1 = id) with
    | some (_, name, true) =>
      if given.any (·.1 = id) then [] else [⟨pos, "action", "local-input-missing", [name, m.name, spec] ++ required⟩]
    | _ => [])

/-- `checkLocalAction` at one step, given the answer of `FindMetadata` -/
def localStep (env : Env) (f : Found) (spec : String) (e : ExecAction) (pos : Pos) : List Diag :=
  match f with
  | .nothing => []
  | .err dir => [⟨pos, "action", "meta-broken", [dir]⟩]
  | .found m cached => (if cached then [] else metadataDiags env m pos) ++ inputDiags m spec e pos

/-- `RuleAction.VisitStep` for a `./` spec -/
def actionStep (env : Env) (c : Cache) (st : Step) : Cache × List Diag :=
  match st.exec with
  | .action e =>
    (match e.uses with
     | none => (c, [])
     | some u =>
       if AL.Rules.containsExpr u then (c, [])
       else if u.value.startsWith "./" then (remember env c u.value, localStep env (answer env c u.value) u.value e u.pos)
       else (c, []))
  | _ => (c, [])

/-- `RuleExpression.VisitStep` → `getActionOutputsType`: asked for a step with an id, after rule action at the same step -/
def exprStep (env : Env) (c : Cache) (st : Step) : Cache × List AL.RuleExpr.Diag :=
  match st.id, st.exec with
  | some _, .action e =>
    (match e.uses with
     | none => (c, [])
     | some u =>
       if u.value.startsWith "./" then
         (remember env c u.value, match answer env c u.value with | .err dir => [⟨u.pos, "meta-broken", [dir]⟩] | _ => [])
       else (c, []))
  | _, _ => (c, [])

structure Out where
  cache : Cache := []
  action : List Diag := []
  expr : List AL.RuleExpr.Diag := []

def stepsLoop (env : Env) : List Step → Out → Out
  | [], o => o
  | st :: rest, o =>
    let a := actionStep env o.cache st
    let x := exprStep env a.1 st
    stepsLoop env rest { cache := x.1, action := o.action ++ a.2, expr := o.expr ++ x.2 }

/-- one file: jobs in source order, steps in order, rule action before rule expression at each step -/
def simulate (env : Env) (w : Workflow) : Out :=
  (AL.Rules.jobsOf w).foldl (fun o j => stepsLoop env (AL.Rules.stepsOf j) o) {}

/-- `typeOfActionOutputs` -/
def outputsTy (m : ActionMeta) : AL.Ty := .obj (m.outputs.foldl (fun ps o => AL.Ty.setProp o.1 .string ps) []) none

/-- what the expression rule is told: the outputs of the local actions whose metadata the project has -/
def actionOutputs (env : Env) (spec : String) : Option AL.Ty :=
  if !env.hasProject then none
  else match env.disk spec with
    | .ok m => some (outputsTy m)
    | _ => none

end AL.ProjAction
