import AL.Model.Proc
/-
  Model of how rule_shellcheck.go and rule_pyflakes.go thread the default shells through a workflow:

    RuleShellcheck.{workflowShell, jobShell, runnerShell}   set in VisitWorkflowPre / VisitJobPre, cleared in the Post callbacks
    RulePyflakes.{workflowShellIsPython, jobShellIsPython}  likewise
    getShellName / isPythonShell                           the decision at a step (AL.Proc.effectiveShell / isPython)

  A workflow is the list of its jobs in the order the visitor meets them (Go map order: arbitrary).
-/
namespace AL.ShellVisit
open AL.Proc

structure StepS where
  /-- `shell:` of the step -/
  shell : Option String
  /-- the step has a `run:` script -/
  isRun : Bool

structure JobS where
  /-- `defaults.run` is present -/
  hasDefaultsRun : Bool
  /-- `defaults.run.shell` (only meaningful with `hasDefaultsRun`) -/
  defShell : Option String
  /-- literal `runs-on` labels -/
  labels : List String
  steps : List StepS

structure WfS where
  hasDefaultsRun : Bool
  defShell : Option String
  jobs : List JobS

/-- the shell a job's `defaults.run.shell` contributes -/
def JobS.shell (j : JobS) : Option String := if j.hasDefaultsRun then j.defShell else none
def WfS.shell (w : WfS) : Option String := if w.hasDefaultsRun then w.defShell else none

/-! ### shellcheck -/

structure ScSt where
  workflowShell : String
  jobShell : String
  runnerShell : String
deriving Repr, DecidableEq

def ScSt.init : ScSt := ⟨"", "", ""⟩

def isWindowsLabel (lower : String → String) (l : String) : Bool :=
  let l' := lower l
  l' = "windows" || l'.startsWith "windows-"

/-- `RuleShellcheck.VisitJobPre` -/
def scJobPre (lower : String → String) (st : ScSt) (j : JobS) : ScSt :=
  let st1 := match j.shell with
    | some s => { st with jobShell := s }
    | none => st
  if j.labels.any (isWindowsLabel lower) then { st1 with runnerShell := "pwsh" } else st1

/-- `RuleShellcheck.VisitJobPost` -/
def scJobPost (st : ScSt) : ScSt := { st with jobShell := "", runnerShell := "" }

/-- `VisitStep`: the shell name for a `run:` step (`none`: no script, nothing to do) -/
def scStep (st : ScSt) (s : StepS) : Option String :=
  if s.isRun then some (effectiveShell s.shell st.jobShell st.workflowShell st.runnerShell) else none

def scJob (lower : String → String) (st : ScSt) (j : JobS) : ScSt × List (Option String) :=
  let st1 := scJobPre lower st j
  (scJobPost st1, j.steps.map (scStep st1))

def scJobs (lower : String → String) (st : ScSt) : List JobS → ScSt × List (List (Option String))
  | [] => (st, [])
  | j :: js =>
    let r := scJob lower st j
    let r' := scJobs lower r.1 js
    (r'.1, r.2 :: r'.2)

/-- `VisitWorkflowPre` … `VisitWorkflowPost`: per job, per step, the shell name -/
def scWorkflow (lower : String → String) (st : ScSt) (w : WfS) : ScSt × List (List (Option String)) :=
  let st1 := match w.shell with
    | some s => { st with workflowShell := s }
    | none => st
  let r := scJobs lower st1 w.jobs
  ({ r.1 with workflowShell := "" }, r.2)

/-- the runner's default shell as the rule sees it -/
def runnerDefault (lower : String → String) (labels : List String) : String :=
  if labels.any (isWindowsLabel lower) then "pwsh" else ""

/-! ### pyflakes -/

structure PySt where
  workflow : PyKind
  job : PyKind
deriving Repr, DecidableEq

def PySt.init : PySt := ⟨.unspecified, .unspecified⟩

def pyJobPre (st : PySt) (j : JobS) : PySt :=
  if j.hasDefaultsRun then { st with job := pyKind j.defShell } else st

def pyJobPost (st : PySt) : PySt := { st with job := .unspecified }

def pyStep (st : PySt) (s : StepS) : Bool :=
  s.isRun && isPython s.shell st.job st.workflow

def pyJob (st : PySt) (j : JobS) : PySt × List Bool :=
  let st1 := pyJobPre st j
  (pyJobPost st1, j.steps.map (pyStep st1))

def pyJobs (st : PySt) : List JobS → PySt × List (List Bool)
  | [] => (st, [])
  | j :: js =>
    let r := pyJob st j
    let r' := pyJobs r.1 js
    (r'.1, r.2 :: r'.2)

def pyWorkflow (st : PySt) (w : WfS) : PySt × List (List Bool) :=
  let st1 := if w.hasDefaultsRun then { st with workflow := pyKind w.defShell } else st
  let r := pyJobs st1 w.jobs
  ({ r.1 with workflow := .unspecified }, r.2)

end AL.ShellVisit
