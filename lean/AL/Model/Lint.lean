/-
  Model of the glue of linter.go / command.go / project.go / config.go (C15):
  `filterErrors`, the stable sort by (file, line, column), exit status, and the lexical path
  computations (`filepath.Clean/Join/Rel/IsAbs` on '/'-separated paths) behind `pathFromProjectRoot`,
  `Project.Knows` and the cwd-relative display path.
-/
namespace AL.Lint

structure D where
  file : String
  line : Nat
  col  : Nat
  msg  : String
  kind : String
deriving Repr, DecidableEq, Inhabited

/-- `ByErrorPosition.Less` -/
def less (a b : D) : Bool :=
  if a.file ≠ b.file then a.file < b.file
  else if a.line = b.line then a.col < b.col
  else a.line < b.line

/-- insert behind every element that is not greater: keeps the original order of ties -/
def insertStable (x : D) : List D → List D
  | [] => [x]
  | y :: ys => if less x y then x :: y :: ys else y :: insertStable x ys

/-- `sort.Stable(ByErrorPosition(all))` (the result of a stable sort is unique; this is the
left-to-right insertion sort) -/
def stableSort (l : List D) : List D := l.foldl (fun acc x => insertStable x acc) []

/-- `filterErrors` with the ignore decision abstracted: `ignored d` = some applicable pattern matches `d.msg` -/
def filterErrors (ignored : D → Bool) (l : List D) : List D := l.filter (fun d => !ignored d)

/-- tail of `Linter.check`: filter, set the file path, stable sort -/
def checkTail (ignored : D → Bool) (path : String) (raw : List D) : List D :=
  stableSort ((filterErrors ignored raw).map fun d => { d with file := path })

inductive Outcome where
  | badFlags                 -- flag.Parse failed (not -h)
  | help                     -- -h / -help
  | version
  | fatal                    -- runLinter returned an error
  | done (remaining : Nat)   -- number of diagnostics after filtering
deriving Repr, DecidableEq

/-- `Command.Main` -/
def exitStatus : Outcome → Nat
  | .badFlags => 2
  | .help => 0
  | .version => 0
  | .fatal => 3
  | .done n => if n > 0 then 1 else 0

/-! ### lexical paths -/

structure FPath where
  abs   : Bool
  comps : List String          -- no "", no "."; ".." only as a leading run of a relative path
deriving Repr, DecidableEq, Inhabited

/-- `filepath.Clean` on a component list: `.` and empty components vanish, `..` pops (at the root of an
absolute path it vanishes, at the start of a relative path it stays). `acc` is the reversed result. -/
def cleanComps (abs : Bool) : List String → List String → List String
  | [], acc => acc.reverse
  | c :: rest, acc =>
    if c = "" || c = "." then cleanComps abs rest acc
    else if c = ".." then
      match acc with
      | [] => if abs then cleanComps abs rest [] else cleanComps abs rest [".."]
      | top :: below => if top = ".." then cleanComps abs rest (".." :: acc) else cleanComps abs rest below
    else cleanComps abs rest (c :: acc)

def ofString (s : String) : FPath :=
  { abs := s.startsWith "/", comps := cleanComps (s.startsWith "/") (s.splitOn "/") [] }

def FPath.toString (p : FPath) : String :=
  if p.abs then "/" ++ "/".intercalate p.comps
  else if p.comps.isEmpty then "." else "/".intercalate p.comps

/-- `filepath.Join(a, b)` for a relative `b` -/
def join (a b : FPath) : FPath := { abs := a.abs, comps := cleanComps a.abs (a.comps ++ b.comps) [] }

def commonPrefixLen : List String → List String → Nat
  | a :: as, b :: bs => if a = b then commonPrefixLen as bs + 1 else 0
  | _, _ => 0

/-- `filepath.Rel(base, targ)`; `none` = error ("can't make … relative to …") -/
def rel (base targ : FPath) : Option FPath :=
  if base.abs ≠ targ.abs then none
  else
    let n := commonPrefixLen base.comps targ.comps
    let up := base.comps.drop n
    if up.contains ".." then none
    else some { abs := false, comps := up.map (fun _ => "..") ++ targ.comps.drop n }

/-- absolute path of a file spelled `p` on the command line when the working directory is `cwd` -/
def absOf (cwd p : FPath) : FPath := if p.abs then p else join cwd p

/-- `LintFile`/`LintFiles`: the display path (`filepath.Rel(l.cwd, path)` if possible) -/
def displayPath (cwd p : FPath) : FPath :=
  match rel cwd p with
  | some r => r
  | none => p

/-- `pathFromProjectRoot(path, project)` as called from `check` with the display path -/
def pathFromProjectRoot (cwd root p : FPath) : FPath :=
  let q := if p.abs then p else join cwd p
  match rel root q with
  | some r => r
  | none => p

/-- `Project.Knows`: whole-component prefix -/
def knows (root p : FPath) : Bool := root.comps.isPrefixOf p.comps

end AL.Lint
