import AL.Model.Yaml
/-
  ast.go as Lean structures. Field order follows the Go declarations. A Go pointer / slice / map that may be nil is an
  `Option` (`none` = nil: parse.go tests several of them against nil); a Go map is an association list in the order
  the entries were inserted (the keys are pairwise distinct because `parseMapping` drops repeated keys).
  `Float.Value` is abstracted to its sign (that is all parse.go looks at).
-/
namespace AL.Ast
open AL.Yaml

abbrev Raw := AL.Matrix.Raw

structure Str where
  value : String
  quoted : Bool
  pos : Pos
deriving Repr, DecidableEq, Inhabited

structure BoolV where
  value : Bool
  expr : Option Str
  pos : Pos
deriving Repr, DecidableEq

structure IntV where
  value : Int
  expr : Option Str
  pos : Pos
deriving Repr, DecidableEq

/-- `positive`: `Value > 0` -/
structure FloatV where
  positive : Bool
  expr : Option Str
  pos : Pos
deriving Repr, DecidableEq

structure Filter where
  name : Str
  values : Option (List Str)
deriving Repr

structure WebhookEvent where
  hook : Str
  types : Option (List Str) := none
  branches : Option Filter := none
  branchesIgnore : Option Filter := none
  tags : Option Filter := none
  tagsIgnore : Option Filter := none
  paths : Option Filter := none
  pathsIgnore : Option Filter := none
  workflows : Option (List Str) := none
  pos : Pos
deriving Repr

inductive DispatchInputType where
  | none | string | number | boolean | choice | environment
deriving Repr, DecidableEq

structure DispatchInput where
  name : Str
  description : Option Str
  required : Option BoolV
  dflt : Option Str
  type : DispatchInputType
  options : Option (List Str)
deriving Repr

inductive CallInputType where
  | invalid | boolean | number | string
deriving Repr, DecidableEq

structure CallInput where
  name : Str
  description : Option Str := none
  dflt : Option Str := none
  required : Option BoolV := none
  type : CallInputType := .invalid
  id : String
deriving Repr

structure CallSecret where
  name : Str
  description : Option Str := none
  required : Option BoolV := none
deriving Repr

structure CallOutput where
  name : Str
  description : Option Str := none
  value : Option Str := none
deriving Repr

inductive Event where
  | webhook (e : WebhookEvent)
  | schedule (cron : List Str) (pos : Pos)
  | dispatch (inputs : Option (List (String × DispatchInput))) (pos : Pos)
  | repoDispatch (types : Option (List Str)) (pos : Pos)
  | call (inputs : Option (List CallInput)) (secrets : Option (List (String × CallSecret)))
      (outputs : Option (List (String × CallOutput))) (pos : Pos)
deriving Repr

structure PermissionScope where
  name : Str
  value : Str
deriving Repr

structure Permissions where
  all : Option Str
  scopes : Option (List (String × PermissionScope))
  pos : Pos
deriving Repr

structure DefaultsRun where
  shell : Option Str := none
  workingDirectory : Option Str := none
  pos : Pos
deriving Repr

structure Defaults where
  run : Option DefaultsRun
  pos : Pos
deriving Repr

structure Concurrency where
  group : Option Str := none
  cancelInProgress : Option BoolV := none
  pos : Pos
deriving Repr

structure Environment where
  name : Option Str := none
  url : Option Str := none
  pos : Pos
deriving Repr

structure EnvVar where
  name : Str
  value : Str
deriving Repr

structure Env where
  vars : Option (List (String × EnvVar))
  expr : Option Str
deriving Repr

structure Input where
  name : Str
  value : Str
deriving Repr

structure ExecRun where
  run : Option Str := none
  shell : Option Str := none
  workingDirectory : Option Str := none
  runPos : Option Pos := none
deriving Repr

structure ExecAction where
  uses : Option Str := none
  inputs : Option (List (String × Input)) := none
  entrypoint : Option Str := none
  args : Option Str := none
deriving Repr

inductive Exec where
  | none
  | run (e : ExecRun)
  | action (e : ExecAction)
deriving Repr

structure MatrixRow where
  name : Option Str
  values : Option (List Raw)
  expr : Option Str
deriving Repr

structure MatrixAssign where
  key : Str
  value : Raw
deriving Repr

structure MatrixCombination where
  assigns : Option (List (String × MatrixAssign))
  expr : Option Str
deriving Repr

structure MatrixCombinations where
  combinations : Option (List MatrixCombination)
  expr : Option Str
deriving Repr

structure Matrix where
  rows : Option (List (String × MatrixRow))
  incl : Option MatrixCombinations := none
  excl : Option MatrixCombinations := none
  expr : Option Str := none
  pos : Pos
deriving Repr

structure Strategy where
  matrix : Option Matrix := none
  failFast : Option BoolV := none
  maxParallel : Option IntV := none
  pos : Pos
deriving Repr

structure Step where
  id : Option Str := none
  cond : Option Str := none
  name : Option Str := none
  exec : Exec := .none
  env : Option Env := none
  continueOnError : Option BoolV := none
  timeoutMinutes : Option FloatV := none
  pos : Pos
deriving Repr

structure Credentials where
  username : Option Str := none
  password : Option Str := none
  pos : Pos
deriving Repr

structure Container where
  image : Option Str := none
  credentials : Option Credentials := none
  env : Option Env := none
  ports : Option (List Str) := none
  volumes : Option (List Str) := none
  options : Option Str := none
  pos : Pos
deriving Repr

structure Service where
  name : Str
  container : Container
deriving Repr

structure Services where
  value : Option (List (String × Service))
  expr : Option Str
  pos : Pos
deriving Repr

structure Output where
  name : Str
  value : Str
deriving Repr

structure Runner where
  labels : Option (List Str) := none
  labelsExpr : Option Str := none
  group : Option Str := none
deriving Repr

structure CallArg where
  name : Str
  value : Str
deriving Repr

structure WorkflowCall where
  uses : Option Str := none
  inputs : Option (List (String × CallArg)) := none
  secrets : Option (List (String × CallArg)) := none
  inheritSecrets : Bool := false
deriving Repr

structure Job where
  id : Str
  name : Option Str := none
  needs : Option (List Str) := none
  runsOn : Option Runner := none
  permissions : Option Permissions := none
  environment : Option Environment := none
  concurrency : Option Concurrency := none
  outputs : Option (List (String × Output)) := none
  env : Option Env := none
  defaults : Option Defaults := none
  cond : Option Str := none
  steps : Option (List Step) := none
  timeoutMinutes : Option FloatV := none
  strategy : Option Strategy := none
  continueOnError : Option BoolV := none
  container : Option Container := none
  services : Option Services := none
  workflowCall : Option WorkflowCall := none
  pos : Pos
deriving Repr

structure Workflow where
  name : Option Str := none
  runName : Option Str := none
  on : Option (List Event) := none
  permissions : Option Permissions := none
  env : Option Env := none
  defaults : Option Defaults := none
  concurrency : Option Concurrency := none
  jobs : Option (List (String × Job)) := none
deriving Repr

end AL.Ast
