/-
  Model of expr_type.go: the structural type system (`Assignable`, `Merge`, `String`, `EqualTypes`,
  `typeOfJSONValue`). Pointer types are values; `ObjectType.Props` is an association list with
  pairwise distinct (lower-case) keys; `Mapped = nil` (strict object) is `none`.
-/
namespace AL

inductive Ty where
  | any | null | number | bool | string
  | obj (props : List (String × Ty)) (mapped : Option Ty)
  | arr (elem : Ty) (deref : Bool)
deriving Repr, Inhabited

namespace Ty

def lookup (k : String) : List (String × Ty) → Option Ty
  | [] => none
  | (k', v) :: rest => if k' = k then some v else lookup k rest

def isAny : Ty → Bool
  | .any => true
  | _ => false

/-- insertion into a key-sorted association list (used to iterate "in sorted key order") -/
def insertSorted (k : String) (v : Ty) : List (String × Ty) → List (String × Ty)
  | [] => [(k, v)]
  | (k', v') :: rest => if k < k' then (k, v) :: (k', v') :: rest else (k', v') :: insertSorted k v rest

def sortByKey (l : List (String × Ty)) : List (String × Ty) :=
  l.foldl (fun acc kv => insertSorted kv.1 kv.2 acc) []

/-- replace a binding, or insert it at its place in key order. All `obj` property lists of the model
are kept sorted by key (the driver sorts its inputs), so that "iterate in sorted key order" — what
`Merge` does since the determinism fix — is list order. -/
def setProp (k : String) (v : Ty) : List (String × Ty) → List (String × Ty)
  | [] => [(k, v)]
  | (k', v') :: rest =>
    if k' = k then (k, v) :: rest
    else if k < k' then (k, v) :: (k', v') :: rest
    else (k', v') :: setProp k v rest

mutual
/-- `l.Assignable(r)`: a value of type `r` can be passed where `l` is expected. -/
def assignable : Ty → Ty → Bool
  | .any, _ => true
  | .bool, _ => true
  | .null, r => (match r with | .null | .any => true | _ => false)
  | .number, r => (match r with | .number | .any => true | _ => false)
  | .string, r => (match r with | .string | .number | .any => true | _ => false)
  | .arr e _, r => (match r with | .any => true | .arr e' _ => assignable e e' | _ => false)
  | .obj ps m, r =>
    match r with
    | .any => true
    | .obj qs m' =>
      (match m with
      | some mt =>
        (match m' with
        | some mt' => assignable mt mt'
        | none => allAssignableFrom mt qs)
      | none =>
        (match m' with
        | some mt' => propsAssignableTo ps mt'
        | none => propsCover ps qs))
    | _ => false
/-- `for _, t := range other.Props { if !ty.Mapped.Assignable(t) … }` -/
def allAssignableFrom (mt : Ty) : List (String × Ty) → Bool
  | [] => true
  | (_, t) :: rest => assignable mt t && allAssignableFrom mt rest
/-- `for _, t := range ty.Props { if !t.Assignable(other.Mapped) … }` -/
def propsAssignableTo : List (String × Ty) → Ty → Bool
  | [], _ => true
  | (_, t) :: rest, m => assignable t m && propsAssignableTo rest m
/-- `for n, r := range other.Props { l, ok := ty.Props[n]; !ok || !l.Assignable(r) … }`
(recursion on the receiver's props: for each binding of `qs` look it up in `ps`) -/
def propsCover (ps : List (String × Ty)) : List (String × Ty) → Bool
  | [] => true
  | (n, r) :: rest => lookupAssignable ps n r && propsCover ps rest
def lookupAssignable : List (String × Ty) → String → Ty → Bool
  | [], _, _ => false
  | (k, l) :: rest, n, r => if k = n then assignable l r else lookupAssignable rest n r
end

def equalTypes (l r : Ty) : Bool := assignable l r && assignable r l

/-- Scalar part of `Merge`; objects and arrays are handled in `merge`. -/
def mergeScalar : Ty → Ty → Ty
  | .any, _ => .any
  | .null, .null => .null
  | .null, _ => .any
  | .number, .number => .number
  | .number, .string => .string
  | .number, _ => .any
  | .bool, .bool => .bool
  | .bool, .string => .string
  | .bool, _ => .any
  | .string, .string => .string
  | .string, .number => .string
  | .string, .bool => .string
  | .string, _ => .any
  | _, _ => .any

mutual
/-- `ty.Merge(other)`. The other object's properties are folded in sorted key order (as the code does). -/
def merge : Ty → Ty → Ty
  | .obj ps m, .obj qs m' =>
    if ps.isEmpty && (match m' with | some .any => true | _ => false) then .obj qs m'
    else if qs.isEmpty && (match m with | some .any => true | _ => false) then .obj ps m
    else
      let mapped0 : Option Ty := match m, m' with
        | none, _ => m'
        | some a, none => some a
        | some a, some b => some (merge a b)
      mergeProps ps mapped0 qs
  | .arr e d, .arr e' d' =>
    if e.isAny then .arr e (d || d')
    else if e'.isAny then .arr e' (d || d')
    else .arr (merge e e') false
  | .obj _ _, _ => .any
  | .arr _ _, _ => .any
  | l, r => mergeScalar l r
/-- the loop over `other.Props` (a key-sorted list): accumulates props and mapped -/
def mergeProps (props : List (String × Ty)) (mapped : Option Ty) : List (String × Ty) → Ty
  | [] => .obj props mapped
  | (n, r) :: rest =>
    match lookup n props with
    | some l => mergeProps (setProp n (merge l r) props) mapped rest
    | none =>
      let mapped' := match mapped with
        | some mt => some (merge mt r)
        | none => none
      mergeProps (setProp n r props) mapped' rest
end

end Ty
end AL
