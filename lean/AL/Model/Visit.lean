import AL.Model.Sema
import AL.Model.Json
import AL.Model.Insecure
import AL.Gen.Builtins
import AL.Gen.Availability
/-
  Model of the scope bookkeeping of rule_expression.go: which types the contexts `matrix`, `steps`, `needs`,
  `inputs`, `secrets` have at each place of a workflow where an expression is checked.

    RuleExpression.{matrixTy, stepsTy, needsTy}      per-job state, set in VisitJobPre / VisitStep, reset in VisitJobPost
    RuleExpression.{inputsTy, dispatchInputsTy, secretsTy}   per-workflow, set in VisitWorkflowPre
    checkSemanticsOfExprNode                          builds a fresh checker from that state + the availability of the key
    calcNeedsType / populateDependantNeedsTypes       `needs` = the directly needed jobs with their declared outputs
    checkMatrix / checkMatrixExpression / checkMatrixRow / checkRawYAMLValue / checkRawYAMLString
                                                      the type of the `matrix` context
    VisitStep                                         a step's strings are checked BEFORE its id is added to `steps`

  Go maps are association lists; `ObjectType.Props` are kept key-sorted (`Ty.setProp`), as everywhere in the model.
  A string that is checked is a `Probe`: the parsed expression and the workflow key handed to the checker; the
  machine returns, per probe, the diagnostics of `Sema.check` under the environment in effect.
  Not modelled here: diagnostics of the matrix values themselves (they only contribute their type) and positions.
-/
namespace AL.Visit
open AL AL.Sema

/-! ### matrix values: `checkRawYAMLValue`, `checkRawYAMLString` -/

/-- a value inside `strategy.matrix`: plain scalars by the type their spelling has, a value that is one
placeholder, sequences and mappings (keys lower-cased by the parser) -/
inductive RawV where
  | bool | null | number | string
  | expr (e : E)
  | arr (es : List RawV)
  | obj (ps : List (String × RawV))
deriving Inhabited

/-- type of a value that is exactly one placeholder (`checkOneExpression` / `isExprAssigned` branch):
`none` = the placeholder has a diagnostic -/
abbrev Ev := E → Option Ty

mutual
def rawTy (ev : Ev) : RawV → Ty
  | .bool => .bool
  | .null => .null
  | .number => .number
  | .string => .string
  | .expr e => (ev e).getD .any
  | .arr es => rawTyArr ev es
  | .obj ps => .obj (rawTyProps ev ps) none
/-- `&ArrayType{elem, false}`, `elem` = the merge of the element types; `any` for the empty sequence -/
def rawTyArr (ev : Ev) : List RawV → Ty
  | [] => .arr .any false
  | v :: vs => .arr (rawTyFold ev (rawTy ev v) vs) false
def rawTyFold (ev : Ev) (acc : Ty) : List RawV → Ty
  | [] => acc
  | v :: vs => rawTyFold ev (Ty.merge acc (rawTy ev v)) vs
def rawTyProps (ev : Ev) : List (String × RawV) → List (String × Ty)
  | [] => []
  | (k, v) :: ps => Ty.setProp k (rawTy ev v) (rawTyProps ev ps)
end

inductive RowM where
  | values (vs : List RawV)
  | expr (e : E)

inductive ComboM where
  | assigns (as : List (String × RawV))
  | expr (e : E)

inductive IncM where
  | none
  | expr (e : E)
  | combos (cs : List ComboM)

inductive MatrixM where
  | expr (e : E)
  | lit (rows : List (String × RowM)) (inc : IncM)

/-- `NewEmptyObjectType()` -/
def emptyLoose : Ty := .obj [] (some .any)
/-- `NewEmptyStrictObjectType()` -/
def emptyStrict : Ty := .obj [] none

/-- `(*ObjectType).Loose()` -/
def loosen : Ty → Ty
  | .obj ps _ => .obj ps (some .any)
  | t => t

def erase (k : String) : List (String × Ty) → List (String × Ty)
  | [] => []
  | (k', v) :: rest => if k' = k then rest else (k', v) :: erase k rest

/-- `checkMatrixRow` -/
def rowTy (ev : Ev) : RowM → Ty
  | .expr e => match ev e with
    | some (.arr el _) => el
    | _ => .any
  | .values [] => .any
  | .values (v :: vs) => rawTyFold ev (rawTy ev v) vs

/-- one element of `include:` folded into the matrix type `o` (the loop body of `checkMatrix`) -/
def includeCombo (ev : Ev) (o : Ty) : ComboM → Ty
  | .expr e =>
    match ev e with
    | none => o                                   -- `continue`
    | some ty =>
      match Ty.merge o ty with
      | .obj ps m => .obj ps m
      | _ => loosen o
  | .assigns as =>
    as.foldl (fun o kv =>
      match o with
      | .obj ps m =>
        let ty := rawTy ev kv.2
        let ty' := match Ty.lookup kv.1 ps with
          | some t => Ty.merge t ty
          | none => ty
        .obj (Ty.setProp kv.1 ty' ps) m
      | t => t) o

/-- `checkMatrix` for a literal matrix -/
def matrixLitTy (ev : Ev) (rows : List (String × RowM)) (inc : IncM) : Ty :=
  let o : Ty := .obj (rows.foldl (fun ps kr => Ty.setProp kr.1 (rowTy ev kr.2) ps) []) none
  match inc with
  | .none => o
  | .expr e =>
    match ev e with
    | some (.arr elem _) =>
      (match Ty.merge o elem with
      | .obj ps m => .obj ps m
      | _ => emptyLoose)
    | _ => emptyLoose
  | .combos cs => cs.foldl (includeCombo ev) o

/-- the properties of `include`'s element type merged into the matrix object (`checkMatrixExpression`) -/
def mergeInclude (ps : List (String × Ty)) : List (String × Ty) → List (String × Ty)
  | [] => ps
  | (n, p) :: rest =>
    let ps' := match Ty.lookup n ps with
      | some t => Ty.setProp n (Ty.merge t p) ps
      | none => Ty.setProp n p ps
    mergeInclude ps' rest

/-- `checkMatrixExpression`: `matrix: ${{ … }}` -/
def matrixExprTy (ev : Ev) (e : E) : Ty :=
  match ev e with
  | some (.obj ps m) =>
    let ps1 := match Ty.lookup "include" ps with
      | some (.arr (.obj ips _) _) => mergeInclude (erase "include" ps) ips
      | some _ => erase "include" ps
      | none => ps
    .obj (erase "exclude" ps1) m
  | _ => emptyLoose

def matrixTy (ev : Ev) : MatrixM → Ty
  | .expr e => matrixExprTy ev e
  | .lit rows inc => matrixLitTy ev rows inc

/-! ### workflow header, jobs, steps -/

/-- what the rule does with the type of a value that is one placeholder -/
inductive PKind where
  /-- `checkString` / `checkScriptString`: a template; objects, arrays and null must not be interpolated -/
  | str
  /-- `checkScriptString` (a `run:` script, the `script:` input of actions/github-script): a template as well, and
  untrusted inputs are reported -/
  | script
  /-- `checkBool`: the type must be bool (or unknown) -/
  | bool
  /-- `checkInt` / `checkFloat` (`checkNumberExpression`): the type must be number (or unknown); `what` is echoed -/
  | number (what : String)
  /-- `checkIfCondition` for a condition written with `${{ }}`: a template like any string; every type converts to bool -/
  | cond
deriving Repr, DecidableEq

/-- a checked string: an identifying tag, the workflow key given to `checkSemanticsOfExprNode`, the expression -/
structure Probe where
  tag : Nat
  key : String
  e   : E
  kind : PKind := .str

structure Header where
  /-- `workflow_dispatch.inputs`: id ↦ type (`none` = no workflow_dispatch event) -/
  dispatchInputs : Option (List (String × Ty))
  /-- `workflow_call.inputs` (`none` = no workflow_call event) -/
  callInputs     : Option (List (String × Ty))
  /-- `workflow_call.secrets` (`none` = the key is absent: secrets stay `{string => string}`) -/
  callSecrets    : Option (List String)

structure StepM where
  /-- `id:` as written -/
  id      : Option String
  /-- the id contains a placeholder -/
  idExpr  : Bool
  /-- `getActionOutputsType(spec)` -/
  outputs : Ty
  /-- the step's strings, all checked before the id is registered -/
  probes  : List Probe

structure JobM where
  /-- key of `workflow.Jobs` (lower case) -/
  id      : String
  /-- `needs:` entries as written -/
  needs   : List String
  /-- declared `outputs:` names (lower case) -/
  outputs : List String
  /-- `some t`: the job calls a reusable workflow whose outputs type is `t` -/
  call    : Option Ty
  matrix  : Option MatrixM
  /-- job-level strings checked in `VisitJobPre` -/
  pre     : List Probe
  steps   : List StepM
  /-- `environment` and `outputs` values, checked in `VisitJobPost` -/
  post    : List Probe

/-- the per-job state of `RuleExpression` -/
structure St where
  matrixTy : Option Ty
  stepsTy  : Option Ty
  needsTy  : Option Ty
deriving Inhabited

def St.init : St := ⟨none, none, none⟩

/-- `WorkflowKeyAvailability(key)`; for `key = ""` the availability is never set: no context, no special function -/
def availability (key : String) : List String × List String :=
  if key = "" then ([], [])
  else match AL.Gen.availabilityCode.find? (·.1 = key) with
    | some (_, ctx, sp) => (ctx, sp)
    | none => AL.Gen.availabilityUnknown

/-- `UpdateSecrets` -/
def secretsTy (names : List String) : Ty :=
  .obj (names.foldl (fun ps n => Ty.setProp n .string ps)
    [("actions_runner_debug", .string), ("actions_step_debug", .string), ("github_token", .string)]) none

/-- `UpdateInputs` -/
def updateInputs (vars : List (String × Ty)) (ty : Ty) : List (String × Ty) :=
  match Ty.lookup "inputs" vars with
  | some (.obj [] none) => Ty.setProp "inputs" ty vars
  | some o => Ty.setProp "inputs" (Ty.merge o ty) vars
  | none => vars

def objOf (ps : List (String × Ty)) : Ty :=
  .obj (ps.foldl (fun acc kv => Ty.setProp kv.1 kv.2 acc) []) none

/-- `github.event.inputs := {id: string …}` (`UpdateDispatchInputs`) -/
def setGithubEventInputs (vars : List (String × Ty)) (ids : List String) : List (String × Ty) :=
  match Ty.lookup "github" vars with
  | some (.obj gps gm) =>
    (match Ty.lookup "event" gps with
    | some (.obj eps em) =>
      let strs : Ty := objOf (ids.map fun i => (i, Ty.string))
      Ty.setProp "github" (.obj (Ty.setProp "event" (.obj (Ty.setProp "inputs" strs eps) em) gps) gm) vars
    | _ => vars)
  | _ => vars

/-- the environment `checkSemanticsOfExprNode` builds -/
def mkEnv (lower : String → String) (hdr : Header) (jobsTy : Option Ty) (st : St) (key : String) : Env :=
  let v0 := AL.Gen.globalVars
  let v1 := match st.matrixTy with | some t => Ty.setProp "matrix" t v0 | none => v0
  let v2 := match st.stepsTy with | some t => Ty.setProp "steps" t v1 | none => v1
  let v3 := match st.needsTy with | some t => Ty.setProp "needs" t v2 | none => v2
  let v4 := match hdr.callSecrets with | some ns => Ty.setProp "secrets" (secretsTy ns) v3 | none => v3
  let v5 := match hdr.callInputs with | some is => updateInputs v4 (objOf is) | none => v4
  let v6 := match hdr.dispatchInputs with
    | some is => setGithubEventInputs (updateInputs v5 (objOf is)) (is.map (·.1))
    | none => v5
  let v7 := match jobsTy with | some t => Ty.setProp "jobs" t v6 | none => v6
  let av := availability key
  { vars := v7, funcs := AL.Gen.funcSigs, specialFuncs := AL.Gen.specialFuncs,
    availCtx := av.1, availSpecial := av.2, configVars := none,
    lower := lower, fromJson := AL.Json.fromJson lower }

/-- the check the rule puts on top of the expression's type; skipped when the expression itself has a diagnostic
(`checkExprsIn` / `checkOneExpression` return nothing then) -/
def typeDiags (k : PKind) (r : R) : List SemaErr :=
  if !r.errs.isEmpty then []
  else match k with
    | .str =>
      (match r.ty with
      | .obj .. => [err "template-type" [tyStr r.ty]]
      | .arr .. => [err "template-type" [tyStr r.ty]]
      | .null => [err "template-type" [tyStr r.ty]]
      | _ => [])
    | .script =>
      (match r.ty with
      | .obj .. => [err "template-type" [tyStr r.ty]]
      | .arr .. => [err "template-type" [tyStr r.ty]]
      | .null => [err "template-type" [tyStr r.ty]]
      | _ => [])
    | .bool =>
      (match r.ty with
      | .bool => []
      | .any => []
      | t => [err "must-be-bool" [tyStr t]])
    | .number what =>
      (match r.ty with
      | .number => []
      | .any => []
      | t => [err "must-be-number" [what, tyStr t]])
    | .cond =>
      -- `if: ${{ … }}` goes through `checkString` first (template check); the bool check never fails
      (match r.ty with
      | .obj .. => [err "template-type" [tyStr r.ty]]
      | .arr .. => [err "template-type" [tyStr r.ty]]
      | .null => [err "template-type" [tyStr r.ty]]
      | _ => [])

/-- the untrusted-input reports of a script position (`NewExprSemanticsChecker(checkUntrusted = true, …)`): one
diagnostic per report, naming the path(s) -/
def untrustedDiags (k : PKind) (r : R) : List SemaErr :=
  match k with
  | .script => (AL.Insecure.run AL.Gen.untrustedRoots r.evs).map fun paths => err "untrusted" paths
  | _ => []

def checkProbe (lower : String → String) (hdr : Header) (jobsTy : Option Ty) (st : St) (p : Probe) : Nat × List SemaErr :=
  let r := check (mkEnv lower hdr jobsTy st p.key) p.e
  let u := untrustedDiags p.kind r
  -- an untrusted-input report is a diagnostic of the expression like any other: the type check on top is skipped
  (p.tag, r.errs ++ u ++ (if u.isEmpty then typeDiags p.kind r else []))

def lookupJob (i : String) : List JobM → Option JobM
  | [] => none
  | j :: js => if j.id = i then some j else lookupJob i js

/-- the `outputs` type other jobs see of job `j` -/
def jobOutputsTy (j : JobM) : Ty :=
  match j.call with
  | some t => t
  | none => objOf (j.outputs.map fun o => (o, Ty.string))

/-- `calcNeedsType`: only the directly needed jobs that exist (and not the job itself) -/
def needsTyOf (lower : String → String) (jobs : List JobM) (self : String) (needs : List String) : Ty :=
  .obj (needs.foldl (fun ps n =>
    let i := lower n
    if i = self then ps
    else if (Ty.lookup i ps).isSome then ps
    else match lookupJob i jobs with
      | none => ps
      | some j => Ty.setProp i (.obj [("outputs", jobOutputsTy j), ("result", .string)] none) ps) []) none

/-- what `VisitStep` adds to `steps` after the step's strings were checked -/
def addStep (lower : String → String) (stepsTy : Ty) (s : StepM) : Ty :=
  match s.id with
  | none => stepsTy
  | some id =>
    let t := if s.idExpr then loosen stepsTy else stepsTy
    match t with
    | .obj ps m => .obj (Ty.setProp (lower id) (.obj [("conclusion", .string), ("outcome", .string), ("outputs", s.outputs)] none) ps) m
    | t => t

abbrev Out := List (Nat × List SemaErr)

def runSteps (lower : String → String) (hdr : Header) (st : St) : List StepM → St × Out
  | [] => (st, [])
  | s :: ss =>
    let here := s.probes.map (checkProbe lower hdr none st)
    let st' := { st with stepsTy := st.stepsTy.map (fun t => addStep lower t s) }
    let r := runSteps lower hdr st' ss
    (r.1, here ++ r.2)

/-- `VisitJobPre`, the steps, `VisitJobPost` for one job, from the state the previous job left behind -/
def runJob (lower : String → String) (hdr : Header) (jobs : List JobM) (st : St) (j : JobM) : St × Out :=
  let st1 := { st with needsTy := some (needsTyOf lower jobs j.id j.needs) }
  let ev : Ev := fun e =>
    let r := check (mkEnv lower hdr none st1 "jobs.<job_id>.strategy") e
    if r.errs.isEmpty then some r.ty else none
  let st2 := match j.matrix with
    | some m => { st1 with matrixTy := some (matrixTy ev m) }
    | none => st1
  let pre := j.pre.map (checkProbe lower hdr none st2)
  let st3 := { st2 with stepsTy := some emptyStrict }
  let r := runSteps lower hdr st3 j.steps
  let post := j.post.map (checkProbe lower hdr none r.1)
  (St.init, pre ++ r.2 ++ post)

def runJobs (lower : String → String) (hdr : Header) (jobs : List JobM) (st : St) : List JobM → St × Out
  | [] => (st, [])
  | j :: js =>
    let r := runJob lower hdr jobs st j
    let r' := runJobs lower hdr jobs r.1 js
    (r'.1, r.2 ++ r'.2)

/-- `checkWorkflowCallOutputs`: the `jobs` context for `on.workflow_call.outputs.*.value` -/
def jobsTyOf (jobs : List JobM) : Ty :=
  objOf (jobs.map fun j =>
    (j.id, Ty.obj [("outputs", match j.call with
      | some _ => emptyLoose
      | none => objOf (j.outputs.map fun o => (o, Ty.string)))] none))

/-! ### the `on:` section (`VisitWorkflowPre`) -/

/-- an input of `workflow_dispatch`: id, type, and its checked strings (description, default, options; no workflow key) -/
structure DispatchInput where
  id : String
  ty : Ty
  probes : List Probe

/-- an input of `workflow_call`: id, type, and its `default:` (checked before the input itself is in scope) -/
structure CallInput where
  id : String
  ty : Ty
  dflt : Option Probe

inductive Event where
  /-- `workflow_dispatch`; the inputs are a Go map: the order of the list is the iteration order -/
  | dispatch (inputs : List DispatchInput)
  /-- `workflow_call`; the inputs are a slice in source order; `secrets = none`: the key is absent -/
  | call (inputs : List CallInput) (secrets : Option (List String))
  | other

/-- the defaults of `workflow_call` inputs: each is checked with the inputs declared BEFORE it in scope -/
def runCallDefaults (lower : String → String) (hdr : Header) : List (String × Ty) → List CallInput → Out
  | _, [] => []
  | acc, i :: is =>
    let here := match i.dflt with
      | some p => [checkProbe lower { hdr with callInputs := some acc } none St.init p]
      | none => []
    here ++ runCallDefaults lower hdr (acc ++ [(i.id, i.ty)]) is

/-- one event of `on:`, from the header state the earlier events left -/
def runEvent (lower : String → String) (hdr : Header) : Event → Header × Out
  | .other => (hdr, [])
  | .dispatch ins =>
    -- `dispatchInputsTy` is assigned after the loop: while the inputs' strings are checked it is what it was before
    ({ hdr with dispatchInputs := some (ins.map fun i => (i.id, i.ty)) },
     ins.flatMap fun i => i.probes.map (checkProbe lower hdr none St.init))
  | .call ins secs =>
    -- `inputsTy` is the (growing) object from the start of the loop; `secretsTy` is assigned after it
    let out := runCallDefaults lower { hdr with callInputs := some [] } [] ins
    ({ hdr with callInputs := some (ins.map fun i => (i.id, i.ty)), callSecrets := match secs with | some s => some s | none => hdr.callSecrets }, out)

def runEvents (lower : String → String) : Header → List Event → Header × Out
  | hdr, [] => (hdr, [])
  | hdr, e :: es =>
    let r := runEvent lower hdr e
    let r' := runEvents lower r.1 es
    (r'.1, r.2 ++ r'.2)

/-- the header in effect after `on:` -/
def headerOf (lower : String → String) (events : List Event) : Header :=
  (runEvents lower ⟨none, none, none⟩ events).1

/-- a whole workflow from its source: the `on:` events, the workflow-level strings (run-name, env, concurrency — checked
after `on:`), the jobs, the workflow_call output values -/
def runSource (lower : String → String) (events : List Event) (top : List Probe) (jobs visitOrder : List JobM)
    (callOutputs : List Probe) : Out :=
  let r := runEvents lower ⟨none, none, none⟩ events
  let hdr := r.1
  let rj := runJobs lower hdr jobs St.init visitOrder
  r.2 ++ top.map (checkProbe lower hdr none St.init) ++ rj.2 ++
    callOutputs.map (checkProbe lower hdr (some (jobsTyOf jobs)) rj.1)

/-- a whole workflow: the jobs in the order the visitor meets them, then the workflow_call output values -/
def runWorkflow (lower : String → String) (hdr : Header) (jobs visitOrder : List JobM) (callOutputs : List Probe) : Out :=
  let r := runJobs lower hdr jobs St.init visitOrder
  r.2 ++ callOutputs.map (checkProbe lower hdr (some (jobsTyOf jobs)) r.1)

end AL.Visit
