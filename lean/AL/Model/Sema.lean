import AL.Model.Ty
/-
  Model of expr_sema.go: `ExprSemanticsChecker.check` and everything below it, with the stream of
  enter/leave events it feeds to the untrusted-input checker. The expression type `E` is the AST of
  expr_ast.go with names already folded where the parser folds them (variable and property names
  lower-cased); function names keep their spelling and are folded here, as in the Go code.
  Types are immutable values (after the fix of the in-place `Deref = true`), so checking an
  expression cannot change the environment seen by the next one.
-/
namespace AL.Sema
open AL

inductive CmpOp where | less | lessEq | greater | greaterEq | eq | notEq
deriving Repr, DecidableEq, Inhabited

inductive LogOp where | and | or
deriving Repr, DecidableEq, Inhabited

inductive E where
  | null | bool | num
  | str (v : String)
  | var (name : String)
  | call (callee : String) (args : List E)
  | objDeref (recv : E) (prop : String)
  | arrDeref (recv : E)
  | index (operand : E) (idx : E)
  | not (e : E)
  | cmp (op : CmpOp) (l r : E)
  | logical (op : LogOp) (l r : E)
deriving Repr, Inhabited

structure Sig where
  name     : String
  ret      : Ty
  params   : List Ty
  variadic : Bool := false
deriving Repr, Inhabited

inductive JsonRes where
  | ok (t : Ty)
  | syntaxErr
  | otherErr
deriving Repr, Inhabited

structure Env where
  vars         : List (String × Ty)
  funcs        : List (String × List Sig)          -- keys lower-case
  specialFuncs : List String                         -- names of the special functions (lower-case)
  availCtx     : List String
  availSpecial : List String
  configVars   : Option (List String)
  lower        : String → String
  fromJson     : String → JsonRes                    -- json.Unmarshal + typeOfJSONValue (see AL/Model/Json.lean)

structure SemaErr where
  code : String
  args : List String := []
deriving Repr, DecidableEq, Inhabited

/-- What `OnVisitNodeLeave` dispatches on. -/
inductive LeaveKind where
  | var (name : String)
  | objDeref (prop : String)
  | indexLit (prop : String)   -- `x['lit']`, property folded
  | index
  | arrDeref
  | safeCall                   -- contains / startsWith / endsWith
  | other
deriving Repr, DecidableEq, Inhabited

inductive Ev where
  | enterSafeCall
  | leave (k : LeaveKind)
deriving Repr, DecidableEq, Inhabited

/-! ### `String()` of types -/

mutual
def tyStr : Ty → String
  | .any => "any" | .null => "null" | .number => "number" | .bool => "bool" | .string => "string"
  | .arr e _ => "array<" ++ tyStr e ++ ">"
  | .obj ps m =>
    match m with
    | some .any => "object"
    | some mt => "{string => " ++ tyStr mt ++ "}"
    | none => "{" ++ propsStr ps true ++ "}"
def propsStr : List (String × Ty) → Bool → String
  | [], _ => ""
  | (n, t) :: rest, first => (if first then "" else "; ") ++ n ++ ": " ++ tyStr t ++ propsStr rest false
end

def sigStr (s : Sig) : String :=
  s.name ++ "(" ++ ", ".intercalate (s.params.map tyStr) ++ (if s.variadic then "..." else "") ++ ") -> " ++ tyStr s.ret

def isSafeCall (lower : String → String) (callee : String) : Bool :=
  let c := lower callee
  c = "contains" || c = "startswith" || c = "endswith"

/-! ### helpers of the individual `check*` functions (non-recursive parts) -/

def err (code : String) (args : List String := []) : SemaErr := ⟨code, args⟩

/-- `checkConfigVariables` -/
def checkConfigVar (env : Env) (prop : String) : List SemaErr :=
  if prop.startsWith "github_" then [err "cfgvar-prefix" [prop]]
  else if prop.toList.any (fun r => !(('0' ≤ r && r ≤ '9') || ('a' ≤ r && r ≤ 'z') || r = '_')) then [err "cfgvar-chars" [prop]]
  else match env.configVars with
    | none => []
    | some [] => [err "cfgvar-empty" [prop]]
    | some vs => if vs.any (fun v => env.lower v = env.lower prop) then [] else [err "cfgvar-undefined" [prop]]

/-- type rule of `checkObjectDeref` once the receiver's type is known -/
def objDerefTy (env : Env) (recvIsVarsVar : Bool) (prop : String) (t : Ty) : Ty × List SemaErr :=
  match t with
  | .any => (.any, [])
  | .obj ps m =>
    (match Ty.lookup prop ps with
    | some pt => (pt, [])
    | none =>
      match m with
      | some mt => (mt, if recvIsVarsVar then checkConfigVar env prop else [])
      | none => (.any, [err "prop-undefined" [prop, tyStr t]]))
  | .arr elem deref =>
    if !deref then (.any, [err "deref-not-object" [prop, tyStr t]])
    else (match elem with
      | .any => (t, [])
      | .obj eps em =>
        (match Ty.lookup prop eps with
        | some pt => (.arr pt true, [])
        | none =>
          match em with
          | some mt => (.arr mt true, [])
          | none => (.arr .any true, [err "filter-prop-undefined" [prop, tyStr elem]]))
      | _ => (.any, [err "filter-not-object" [prop, tyStr elem]]))
  | _ => (.any, [err "deref-not-object" [prop, tyStr t]])

/-- type rule of `checkArrayDeref` -/
def arrDerefTy (t : Ty) : Ty × List SemaErr :=
  match t with
  | .any => (.arr .any true, [])
  | .arr elem _ => (.arr elem true, [])
  | .obj ps m =>
    (match m with
    | some .any => (.arr .any true, [])
    | some (.obj mps mm) => (.arr (.obj mps mm) true, [])
    | some mt => (.any, [err "filter-elems-not-object" [tyStr mt, tyStr t]])
    | none =>
      if ps.any (fun p => match p.2 with | .obj _ _ => true | .any => true | _ => false) then (.arr .any true, [])
      else (.any, [err "filter-no-object-elem" [tyStr t]]))
  | _ => (.any, [err "filter-bad-receiver" [tyStr t]])

/-- type rule of `checkIndexAccess`; `lit` is the index when it is a string literal -/
def indexTy (env : Env) (lit : Option String) (idx : Ty) (t : Ty) : Ty × List SemaErr :=
  match t with
  | .any => (.any, [])
  | .arr elem _ =>
    (match idx with
    | .any | .number => (elem, [])
    | _ => (.any, [err "index-not-number" [tyStr idx]]))
  | .obj ps m =>
    (match idx with
    | .any => (.any, [])
    | .string =>
      (match lit with
      | some v =>
        (match Ty.lookup (env.lower v) ps with
        | some pt => (pt, [])
        | none =>
          match m with
          | some mt => (mt, [])
          | none => (.any, [err "prop-undefined" [v, tyStr t]]))
      | none =>
        match m with
        | some mt => (mt, [])
        | none => (.any, []))
    | _ => (.any, [err "index-not-string" [tyStr idx]]))
  | _ => (.any, [err "index-bad-operand" [tyStr t]])

/-- `validateCompareOpOperands` -/
def validCompare : CmpOp → Ty → Ty → Bool
  | op, l, r =>
    match op with
    | .eq | .notEq =>
      (match l with
      | .any | .null => true
      | .number | .bool | .string => (match r with | .obj _ _ | .arr _ _ => false | _ => true)
      | .obj _ _ => (match r with | .obj _ _ | .null | .any => true | _ => false)
      | .arr le _ => (match r with
        | .arr re _ => validCompare op le re
        | .null | .any => true
        | _ => false))
    | _ =>
      (match l with
      | .any | .number | .string => (match r with | .null | .bool | .obj _ _ | .arr _ _ => false | _ => true)
      | _ => false)

def cmpStr : CmpOp → String
  | .less => "<" | .lessEq => "<=" | .greater => ">" | .greaterEq => ">=" | .eq => "==" | .notEq => "!="

def ordinal (i : Nat) : String :=
  let suffix :=
    if i % 10 = 1 ∧ i % 100 ≠ 11 then "st"
    else if i % 10 = 2 ∧ i % 100 ≠ 12 then "nd"
    else if i % 10 = 3 ∧ i % 100 ≠ 13 then "rd"
    else "th"
  toString i ++ suffix

/-- the two assignability loops of `checkFuncSignature`: first failing argument, 1-based -/
def firstBadArg (params : List Ty) (variadic : Bool) (args : List Ty) : Option (Nat × Ty × Ty) :=
  let rec fixed : List Ty → List Ty → Nat → Option (Nat × Ty × Ty)
    | p :: ps, a :: as, i => if !Ty.assignable p a then some (i, a, p) else fixed ps as (i + 1)
    | _, _, _ => none
  match fixed params args 1 with
  | some x => some x
  | none =>
    if variadic then
      match params.getLast? with
      | none => none
      | some p =>
        let rec rest : List Ty → Nat → Option (Nat × Ty × Ty)
          | [], _ => none
          | a :: as, i => if !Ty.assignable p a then some (i, a, p) else rest as (i + 1)
        rest (args.drop params.length) (params.length + 1)
    else none

/-- `checkFuncSignature` -/
def checkSig (sig : Sig) (args : List Ty) : Option SemaErr :=
  let lp := sig.params.length
  let la := args.length
  if (sig.variadic && lp > la) || (!sig.variadic && lp ≠ la) then
    some (err "arg-count" [sigStr sig, if sig.variadic then "at least" else "", toString lp, toString la])
  else match firstBadArg sig.params sig.variadic args with
    | some (i, a, p) => some (err "arg-type" [ordinal i, tyStr a, tyStr p, sigStr sig])
    | none => none

/-- `parseFormatFuncSpecifiers`: the set of `{N}` indices of a format string -/
def formatHolders (f : String) : List Nat :=
  let rec go : List Char → Nat → Option (Nat × List Char) → List Nat → List Nat
    -- `start`: `none` = -1; `some (pos, digits)` = a '{' was seen at pos-1 and `digits` followed so far
    | [], _, _, acc => acc
    | r :: rest, i, start, acc =>
      if r = '{' then
        (match start with
        | some (s, _) => if s = i then go rest (i + 1) none acc else go rest (i + 1) (some (i + 1, [])) acc
        | none => go rest (i + 1) (some (i + 1, [])) acc)
      else match start with
        | some (s, ds) =>
          if '0' ≤ r && r ≤ '9' then go rest (i + 1) (some (s, ds ++ [r])) acc
          else if r = '}' && s < i then
            let n := ds.foldl (fun a d => a * 10 + (d.toNat - 48)) 0
            go rest (i + 1) none (if acc.contains n then acc else acc ++ [n])
          else go rest (i + 1) none acc
        | none => go rest (i + 1) none acc
  go f.toList 0 none []

def insertNat (n : Nat) : List Nat → List Nat
  | [] => [n]
  | m :: rest => if n ≤ m then n :: m :: rest else m :: insertNat n rest

/-- diagnostics of the `format` special case: unused arguments in index order, then surplus
placeholders in ascending order -/
def formatErrs (fmt : String) (nargs : Nat) : List SemaErr :=
  let holders := formatHolders fmt
  let missing := (List.range nargs).filter (fun i => !holders.contains i)
  let surplus := (holders.filter (fun i => i ≥ nargs)).foldl (fun acc n => insertNat n acc) []
  missing.map (fun i => err "format-unused-arg" [fmt, toString i]) ++
  surplus.map (fun i => err "format-surplus-holder" [fmt, toString i, toString nargs])

/-- `checkSpecialFunctionAvailability` -/
def specialFuncErrs (env : Env) (callee : String) : List SemaErr :=
  let f := env.lower callee
  if !env.specialFuncs.contains f then []
  else if env.availSpecial.contains f then []
  else [err "special-func-not-allowed" [callee]]

/-- `checkBuiltinFuncCall` once a signature matched; `firstArg` is `n.Args[0]` when it is a string literal -/
def builtinCall (env : Env) (callee : String) (sig : Sig) (firstLit : Option String) (nargs : Nat) : Ty × List SemaErr :=
  let e0 := specialFuncErrs env callee
  let c := env.lower callee
  if c = "format" then
    match firstLit with
    | none => (sig.ret, e0)
    | some lit => (sig.ret, e0 ++ formatErrs lit (nargs - 1))
  else if c = "fromjson" then
    match firstLit with
    | none => (sig.ret, e0)
    | some lit =>
      match env.fromJson lit with
      | .ok t => (t, e0)
      | .syntaxErr => (sig.ret, e0 ++ [err "broken-json" []])
      | .otherErr => (sig.ret, e0)
  else (sig.ret, e0)

/-- overload resolution of `checkFuncCall` -/
def resolveCall (env : Env) (callee : String) (sigs : List Sig) (firstLit : Option String) (tys : List Ty) : Ty × List SemaErr :=
  let rec go : List Sig → List SemaErr → Ty × List SemaErr
    | [], errs => (.any, errs)
    | s :: rest, errs =>
      match checkSig s tys with
      | none => builtinCall env callee s firstLit tys.length
      | some e => go rest (errs ++ [e])
  go sigs []

def strLit? : E → Option String
  | .str v => some v
  | _ => none

def lookupFuncs (k : String) : List (String × List Sig) → Option (List Sig)
  | [] => none
  | (k', v) :: rest => if k' = k then some v else lookupFuncs k rest

structure R where
  ty   : Ty
  errs : List SemaErr
  evs  : List Ev
deriving Inhabited

def leaveOf (lower : String → String) : E → LeaveKind
  | .var n => .var n
  | .objDeref _ p => .objDeref p
  | .index _ (.str v) => .indexLit (lower v)
  | .index _ _ => .index
  | .arrDeref _ => .arrDeref
  | .call c _ => if isSafeCall lower c then .safeCall else .other
  | _ => .other

def enterOf (lower : String → String) : E → List Ev
  | .call c _ => if isSafeCall lower c then [.enterSafeCall] else []
  | _ => []

/-- the `defer`red leave event and the enter event around a `check` body -/
def wrap (lower : String → String) (e : E) (body : R) : R :=
  ⟨body.ty, body.errs, enterOf lower e ++ body.evs ++ [.leave (leaveOf lower e)]⟩

mutual
/-- `sema.check(expr)`: type, diagnostics in order, and the enter/leave events -/
def check (env : Env) : E → R
  | .null => wrap env.lower .null ⟨.null, [], []⟩
  | .bool => wrap env.lower .bool ⟨.bool, [], []⟩
  | .num => wrap env.lower .num ⟨.number, [], []⟩
  | .str v => wrap env.lower (.str v) ⟨.string, [], []⟩
  | .var name =>
    wrap env.lower (.var name)
      (match Ty.lookup name env.vars with
      | none => ⟨.any, [err "undefined-variable" [name]], []⟩
      | some t =>
        ⟨t, if env.availCtx.contains (env.lower name) then [] else [err "context-not-allowed" [name]], []⟩)
  | .objDeref recv prop =>
    let r := check env recv
    let isVars := match recv with | .var "vars" => true | _ => false
    let (t, es) := objDerefTy env isVars prop r.ty
    wrap env.lower (.objDeref recv prop) ⟨t, r.errs ++ es, r.evs⟩
  | .arrDeref recv =>
    let r := check env recv
    let (t, es) := arrDerefTy r.ty
    wrap env.lower (.arrDeref recv) ⟨t, r.errs ++ es, r.evs⟩
  | .index operand idx =>
    let ri := check env idx
    let ro := check env operand
    let (t, es) := indexTy env (strLit? idx) ri.ty ro.ty
    wrap env.lower (.index operand idx) ⟨t, ri.errs ++ ro.errs ++ es, ri.evs ++ ro.evs⟩
  | .call callee args =>
    wrap env.lower (.call callee args)
      (match lookupFuncs (env.lower callee) env.funcs with
      | none => ⟨.any, [err "undefined-function" [callee]], []⟩
      | some sigs =>
        let ra := checkArgs env args
        let (t, es) := resolveCall env callee sigs (args.head?.bind strLit?) ra.1
        ⟨t, ra.2.1 ++ es, ra.2.2⟩)
  | .not operand =>
    let r := check env operand
    wrap env.lower (.not operand)
      ⟨.bool, r.errs ++ (if Ty.assignable .bool r.ty then [] else [err "not-operand" [tyStr r.ty]]), r.evs⟩
  | .cmp op l r =>
    let rl := check env l
    let rr := check env r
    wrap env.lower (.cmp op l r)
      ⟨.bool, rl.errs ++ rr.errs ++ (if validCompare op rl.ty rr.ty then [] else [err "bad-compare" [tyStr rl.ty, tyStr rr.ty, cmpStr op]]), rl.evs ++ rr.evs⟩
  | .logical op l r =>
    -- checkLogicalOp: `&&` narrows the left side as falsy, `||` as truthy
    let rl := narrow env l (match op with | .and => false | .or => true)
    let rr := check env r
    wrap env.lower (.logical op l r) ⟨Ty.merge rl.ty rr.ty, rl.errs ++ rr.errs, rl.evs ++ rr.evs⟩

/-- `checkWithNarrowing(n, isTruthy)` -/
def narrow (env : Env) : E → Bool → R
  | .logical .and l r, true =>
    let rl := check env l
    let rr := check env r
    ⟨rr.ty, rl.errs ++ rr.errs, rl.evs ++ rr.evs⟩
  | .logical .or l r, false =>
    let rl := check env l
    let rr := check env r
    ⟨rr.ty, rl.errs ++ rr.errs, rl.evs ++ rr.evs⟩
  | .logical op l r, _ =>
    -- `return sema.checkLogicalOp(n)`: no enter/leave for `n` itself
    let rl := narrow env l (match op with | .and => false | .or => true)
    let rr := check env r
    ⟨Ty.merge rl.ty rr.ty, rl.errs ++ rr.errs, rl.evs ++ rr.evs⟩
  | .not operand, t => narrow env operand (!t)
  | e, _ => check env e

def checkArgs (env : Env) : List E → List Ty × List SemaErr × List Ev
  | [] => ([], [], [])
  | a :: rest =>
    let r := check env a
    let rs := checkArgs env rest
    (r.ty :: rs.1, r.errs ++ rs.2.1, r.evs ++ rs.2.2)
end

end AL.Sema
