import AL.Model.ProjCall
import AL.Model.ProjAction
/-
  One file linted inside a project: the parser, the AST-only rules, and what the project adds — local reusable workflows
  (AL.ProjCall), local actions (AL.ProjAction) and the configuration file's runner labels and configuration variables. The two
  caches are independent of each other.
-/
namespace AL.ProjLint
open AL AL.Ast

structure Env where
  calls : AL.ProjCall.Env := {}
  actions : AL.ProjAction.Env := {}
  /-- `self-hosted-runner.labels` of the configuration in effect, with Go's `path.Match` on them -/
  labels : AL.Rules.LabelCfg := {}
  /-- `config-variables` of the configuration in effect -/
  configVars : Option (List String) := none

/-- what the expression rule is told about the project -/
def viewOf (env : Env) (lower : String → String) (isNumber : String → Bool) (w : Workflow) : AL.RuleExpr.ProjView :=
  { AL.ProjCall.viewOf env.calls lower isNumber w with
    actionOutputs := AL.ProjAction.actionOutputs env.actions, configVars := env.configVars }

/-- rule_expression.go for a file linted inside a project -/
def exprRule (env : Env) (lower : String → String) (isNum : String → Bool) (w : Workflow) : List AL.RuleExpr.Diag :=
  AL.RuleExpr.rule lower isNum w (viewOf env lower isNum w) ++
  (AL.ProjCall.simulate env.calls lower w).flatMap (·.2.exprErrs) ++
  (AL.ProjAction.simulate env.actions w).expr

/-- `Linter.check` (parser + the modelled rules other than expression) for a file linted inside a project -/
def lint (cfg : AL.PW.Cfg) (isNum urlOk : String → Bool) (env : Env) (doc : AL.Yaml.Node) : List AL.Rules.Diag :=
  let r := AL.PW.parse cfg doc
  AL.Rules.stableSort (r.2.map AL.Rules.ofPErr ++ AL.Rules.rules cfg.lower isNum urlOk r.1 env.labels ++
    AL.ProjCall.wcRule env.calls cfg.lower r.1 ++ (AL.ProjAction.simulate env.actions r.1).action)

end AL.ProjLint
