import AL.Model.Scan
/-
  Model of expr_lexer.go: `ExprLexer.Next` and its helpers, statement by statement, over the
  `text/scanner` model. `lexAll` is the token stream the parser pulls lazily; every token is annotated
  with the lexer's error state (`lexErr`, first error wins) right after it was produced.
-/
namespace AL.Lex
open AL

inductive TokKind where
  | unknown | «end» | ident | string | int | float | lparen | rparen | lbracket | rbracket | dot | not
  | less | lessEq | greater | greaterEq | eq | notEq | and | or | star | comma
deriving Repr, DecidableEq, Inhabited

structure Tok where
  kind : TokKind
  val  : List Sym       -- the characters of the token (`lex.src[s.Offset:p.Offset]`)
  off  : Nat
  line : Nat
  col  : Nat
deriving Repr, DecidableEq, Inhabited

inductive Where where
  | intPart | fracPart | expPart | afterNumber | hexInt | afterHex | strEnd | endMarker
  | eqOp | andOp | orOp | expression
deriving Repr, DecidableEq, Inhabited

inductive LexMsg where
  | scan (k : ScanErrKind)
  | unexpectedEOF
  | unexpected (ch : Option Nat) (wh : Where)      -- `none` = EOF
deriving Repr, DecidableEq, Inhabited

structure LexErr where
  msg : LexMsg
  pos : Pos
deriving Repr, DecidableEq, Inhabited

structure LexState where
  scan   : Scanner
  start  : Pos := ⟨1, 1, 0⟩
  buf    : List Sym := []          -- characters consumed since `start`
  err    : Option LexErr := none
deriving Repr, Inhabited

def isWhitespace (r : Nat) : Bool := r = 32 || r = 10 || r = 13 || r = 9
def isAlpha (r : Nat) : Bool := (97 ≤ r && r ≤ 122) || (65 ≤ r && r ≤ 90)
def isNum (r : Nat) : Bool := 48 ≤ r && r ≤ 57
def isHexNum (r : Nat) : Bool := isNum r || (97 ≤ r && r ≤ 102) || (65 ≤ r && r ≤ 70)
def isAlnum (r : Nat) : Bool := isAlpha r || isNum r
def isIdentChar (r : Nat) : Bool := isAlnum r || r = 95 || r = 45

def LexState.peek (st : LexState) : Option Nat := st.scan.peek

/-- `lex.error`: only the first error is kept; positioned at `scan.Pos()`. -/
def LexState.error (st : LexState) (m : LexMsg) : LexState :=
  match st.err with
  | some _ => st
  | none => { st with err := some ⟨m, st.scan.pos⟩ }

def LexState.scanErrs (st : LexState) : List ScanErr → LexState
  | [] => st
  | e :: es =>
    let st' := match st.err with
      | some _ => st
      | none => { st with err := some ⟨.scan e.kind, e.pos⟩ }
    st'.scanErrs es

/-- `lex.scan.Next()`; the character goes to the token buffer. -/
def LexState.next (st : LexState) : LexState :=
  let (c, s, es) := st.scan.next
  let st1 := { st with scan := s, buf := match c with | some x => st.buf ++ [x] | none => st.buf }
  st1.scanErrs es

@[simp] theorem LexState.scanErrs_scan (st : LexState) (es : List ScanErr) : (st.scanErrs es).scan = st.scan := by
  induction es generalizing st with
  | nil => rfl
  | cons e es ih => simp only [LexState.scanErrs]; rw [ih]; split <;> rfl

@[simp] theorem LexState.next_scan (st : LexState) : st.next.scan = (st.scan.next).2.1 := by
  simp [LexState.next]

@[simp] theorem LexState.error_scan (st : LexState) (m : LexMsg) : (st.error m).scan = st.scan := by
  unfold LexState.error; split <;> rfl

theorem LexState.next_lt (st : LexState) (h : st.scan.ch ≠ none) : st.next.scan.remaining < st.scan.remaining := by
  simp only [LexState.next_scan]; exact Scanner.next_remaining_lt st.scan h

theorem LexState.next_le (st : LexState) : st.next.scan.remaining ≤ st.scan.remaining := by
  simp only [LexState.next_scan]; exact Scanner.next_remaining_le st.scan

/-- `lex.token(kind)`. -/
def LexState.token (st : LexState) (k : TokKind) : Tok × LexState :=
  (⟨k, st.buf, st.start.off, st.start.line, st.start.col⟩, { st with start := st.scan.pos, buf := [] })

/-- `lex.eof()`. -/
def LexState.eof (st : LexState) : Tok × LexState :=
  (⟨.end, [], st.start.off, st.start.line, st.start.col⟩, st)

def LexState.unexpected (st : LexState) (r : Option Nat) (wh : Where) : Tok × LexState :=
  (st.error (.unexpected r wh)).eof

/-- `for { r := eat(); if !p(r) break }` after the first `eat`: consume while the look-ahead satisfies `p`. -/
def eatWhile (p : Nat → Bool) (st : LexState) : LexState :=
  match h : st.scan.ch with
  | none => st
  | some c => if p c.r then eatWhile p st.next else st
termination_by st.scan.remaining
decreasing_by exact st.next_lt (by simp [h])

/-- `skipWhite`. -/
def skipWhite (st : LexState) : LexState :=
  match h : st.scan.ch with
  | none => st
  | some c =>
    if isWhitespace c.r then
      let st1 := st.next
      skipWhite { st1 with start := st1.scan.pos, buf := [] }
    else st
termination_by st.scan.remaining
decreasing_by exact st.next_lt (by simp [h])

/-- Tail of `lexNum` / `lexHexInt`: a number must not be followed by an alphanumeric character. -/
def finishNum (st : LexState) (k : TokKind) (wh : Where) : Tok × LexState :=
  match st.peek with
  | some r => if isAlnum r then st.unexpected (some r) wh else st.token k
  | none => st.token k

/-- `lexHexInt` (the `0x` has been consumed). -/
def lexHexInt (st : LexState) : Tok × LexState :=
  match st.peek with
  | some 48 => finishNum st.next .int .afterHex
  | r =>
    if !(match r with | some x => isHexNum x | none => false) then st.unexpected r .hexInt
    else finishNum (eatWhile isHexNum st.next) .int .afterHex

/-- digits after the first one has been checked: `for { r = eat(); if !isNum(r) break }`. -/
def eatDigits (st : LexState) : LexState := eatWhile isNum st.next

/-- exponent part of `lexNum` (`r` is 'e' or 'E'). -/
def lexExponent (st : LexState) : Except (Tok × LexState) LexState :=
  let st1 := st.next  -- eat 'e'
  let st2 := if st1.peek = some 45 then st1.next else st1
  match st2.peek with
  | some 48 => .ok st2.next
  | r =>
    if !(match r with | some x => isNum x | none => false) then .error (st2.unexpected r .expPart)
    else .ok (eatDigits st2)

/-- `lexNum`. -/
def lexNum (st : LexState) : Tok × LexState :=
  let st1 := if st.peek = some 45 then st.next else st
  -- integer part
  let intPart : Except (Tok × LexState) (LexState × Bool) :=   -- Bool: went to lexHexInt
    match st1.peek with
    | some 48 =>
      let st2 := st1.next
      if st2.peek = some 120 then .ok (st2.next, true) else .ok (st2, false)
    | r =>
      if !(match r with | some x => isNum x | none => false) then .error (st1.unexpected r .intPart)
      else .ok (eatDigits st1, false)
  match intPart with
  | .error e => e
  | .ok (st2, true) => lexHexInt st2
  | .ok (st2, false) =>
    -- fraction
    let frac : Except (Tok × LexState) (LexState × TokKind) :=
      if st2.peek = some 46 then
        let st3 := st2.next
        if !(match st3.peek with | some x => isNum x | none => false) then .error (st3.unexpected st3.peek .fracPart)
        else .ok (eatDigits st3, .float)
      else .ok (st2, .int)
    match frac with
    | .error e => e
    | .ok (st3, k) =>
      if st3.peek = some 101 || st3.peek = some 69 then
        match lexExponent st3 with
        | .error e => e
        | .ok st4 => finishNum st4 .float .afterNumber
      else finishNum st3 k .afterNumber

/-- `lexString` (current character is the opening quote). -/
def lexString (st : LexState) : Tok × LexState :=
  match h : st.scan.ch with
  | none => st.unexpected none .strEnd
  | some _ =>
    let st1 := st.next  -- eat
    match h1 : st1.scan.ch with
    | none => st1.unexpected none .strEnd
    | some c =>
      if c.r = 39 then
        let st2 := st1.next
        if st2.peek ≠ some 39 then st2.token .string else lexString st2
      else lexString st1
termination_by st.scan.remaining
decreasing_by
  · have := st.next_lt (by simp [h]); have := st1.next_le; simp +zetaDelta only at *; omega
  · exact st.next_lt (by simp [h])

/-- two-character operators: `eat()` then require `second`. -/
def lexPair (st : LexState) (second : Nat) (k : TokKind) (wh : Where) : Tok × LexState :=
  let st1 := st.next
  if st1.peek ≠ some second then st1.unexpected st1.peek wh
  else st1.next.token k

/-- `<`, `>`, `!` optionally followed by `=`. -/
def lexOptEq (st : LexState) (k kEq : TokKind) : Tok × LexState :=
  let st1 := st.next
  if st1.peek = some 61 then st1.next.token kEq else st1.token k

def lexChar (st : LexState) (k : TokKind) : Tok × LexState := st.next.token k

/-- `ExprLexer.Next`. -/
def lexNext (st0 : LexState) : Tok × LexState :=
  let st := skipWhite st0
  match st.peek with
  | none => (st.error .unexpectedEOF).eof
  | some r =>
    if isAlpha r || r = 95 then (eatWhile isIdentChar st.next).token .ident
    else if isNum r || r = 45 then lexNum st
    else match r with
      | 39 => lexString st
      | 125 => lexPair st 125 .end .endMarker
      | 33 => lexOptEq st .not .notEq
      | 60 => lexOptEq st .less .lessEq
      | 62 => lexOptEq st .greater .greaterEq
      | 61 => lexPair st 61 .eq .eqOp
      | 38 => lexPair st 38 .and .andOp
      | 124 => lexPair st 124 .or .orOp
      | 40 => lexChar st .lparen
      | 41 => lexChar st .rparen
      | 91 => lexChar st .lbracket
      | 93 => lexChar st .rbracket
      | 46 => lexChar st .dot
      | 42 => lexChar st .star
      | 44 => lexChar st .comma
      | _ => st.unexpected (some r) .expression

/-- `NewExprLexer`. A BOM at the very beginning is skipped by the scanner but still lies inside
`lex.src[start.Offset:…]` of the first token, hence it is pre-loaded into the token buffer. -/
def lexInit (src : List Sym) : LexState :=
  let (sc, es) := Scanner.init src
  let bom : List Sym := match src with
    | c :: _ => if c.r = 0xFEFF && !c.bad then [c] else []
    | [] => []
  ({ scan := sc, buf := bom } : LexState).scanErrs es

/-- A token together with the lexer's error state after producing it and the scanner offset
(`lex.scan.Pos().Offset`, what `LexExpression` returns as second value). -/
structure ATok where
  tok    : Tok
  err    : Option LexErr
  offset : Nat
deriving Repr, DecidableEq, Inhabited

/-- The lazily pulled token stream, up to and including the first `END` token. `fuel` bounds the number
of tokens; `src.length + 2` always suffices (every non-END token consumes a character). -/
def lexAll : Nat → LexState → List ATok
  | 0, _ => []
  | fuel + 1, st =>
    let (t, st') := lexNext st
    let a : ATok := ⟨t, st'.err, st'.scan.pos.off⟩
    if t.kind = .end then [a] else a :: lexAll fuel st'

def tokens (src : List Sym) : List ATok := lexAll (src.length + 2) (lexInit src)

/-- `LexExpression`: tokens up to END, or the first error as soon as one is recorded. -/
def lexExpression (src : List Sym) : Except (LexErr × Nat) (List Tok × Nat) :=
  let rec go : List ATok → List Tok → Except (LexErr × Nat) (List Tok × Nat)
    | [], acc => .ok (acc, 0)   -- unreachable: the stream always ends with END
    | a :: rest, acc =>
      match a.err with
      | some e => .error (e, a.offset)
      | none => if a.tok.kind = .end then .ok (acc ++ [a.tok], a.offset) else go rest (acc ++ [a.tok])
  go (tokens src) []

end AL.Lex
