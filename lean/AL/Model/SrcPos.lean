/-
  ast.go `Pos` / `(*Pos).IsBefore`, and the two ways the rules use it to pick "the first" candidate out of a Go
  map (whose iteration order is arbitrary):
    rule_runner_label.go checkConflict / rule_job_needs.go VisitWorkflowPost:
        for … range m { if cond && (found == nil || x.pos.IsBefore(found.pos)) { found = x } }
    rule_job_needs.go detectFirstCycle: sort.Slice(vs, func(i, j) { return vs[i].pos.IsBefore(vs[j].pos) })
-/
namespace AL.SrcPos

structure P where
  line : Nat
  col : Nat
deriving DecidableEq, Repr

/-- `(*Pos).IsBefore`, statement by statement -/
def isBefore (p q : P) : Bool :=
  if p.line < q.line then true
  else if p.line > q.line then false
  else p.col < q.col

/-- the selection loop: `found == nil || x.IsBefore(found)` folded over the candidates in iteration order -/
def selectFirst : List P → Option P
  | [] => none
  | x :: xs => some (xs.foldl (fun found y => if isBefore y found then y else found) x)

/-- insertion sort by `isBefore` (what `sort.Slice` computes when the comparator is a strict total order on
distinct keys: the unique sorted arrangement) -/
def insert (x : P) : List P → List P
  | [] => [x]
  | y :: ys => if isBefore x y then x :: y :: ys else y :: insert x ys

def sortByPos : List P → List P
  | [] => []
  | x :: xs => insert x (sortByPos xs)

end AL.SrcPos
