import AL.Model.Matrix
/-
  The part of `gopkg.in/yaml.v3`'s `yaml.Node` that parse.go reads: Kind, Tag, Value, Style (only whether the
  scalar is single- or double-quoted), Line, Column, Content. An alias node has no content (parse.go never follows
  `Alias`). The YAML parser itself is not modelled: the tree is the input.
-/
namespace AL.Yaml

abbrev Pos := AL.Matrix.P

inductive Kind where
  | document | sequence | mapping | scalar | alias
deriving Repr, DecidableEq, Inhabited

/-- `nodeKindName` -/
def Kind.name : Kind → String
  | .document => "document"
  | .sequence => "sequence"
  | .mapping => "mapping"
  | .scalar => "scalar"
  | .alias => "alias"

inductive Node where
  | mk (kind : Kind) (tag value : String) (quoted : Bool) (line col : Nat) (content : List Node)
deriving Repr, Inhabited

namespace Node
def kind : Node → Kind | mk k _ _ _ _ _ _ => k
def tag : Node → String | mk _ t _ _ _ _ _ => t
def value : Node → String | mk _ _ v _ _ _ _ => v
def quoted : Node → Bool | mk _ _ _ q _ _ _ => q
def line : Node → Nat | mk _ _ _ _ l _ _ => l
def col : Node → Nat | mk _ _ _ _ _ c _ => c
def content : Node → List Node | mk _ _ _ _ _ _ cs => cs
/-- `posAt` -/
def pos (n : Node) : Pos := ⟨n.line, n.col⟩
/-- `isNull` -/
def isNull (n : Node) : Bool := n.kind = .scalar && n.tag = "!!null"
def isScalar (n : Node) : Bool := n.kind = .scalar
end Node

/-- the key/value pairs of a mapping node's `Content` (`for i := 0; i < len(n.Content); i += 2`); yaml.v3 always
produces an even number of children for a mapping, a trailing odd child is ignored here -/
def pairs : List Node → List (Node × Node)
  | k :: v :: rest => (k, v) :: pairs rest
  | _ => []

/-- `unicode.IsSpace` (the White_Space property), which is what `strings.TrimSpace` trims -/
def isSpace (c : Char) : Bool :=
  let n := c.toNat
  (9 ≤ n && n ≤ 13) || n = 0x20 || n = 0x85 || n = 0xA0 || n = 0x1680 || (0x2000 ≤ n && n ≤ 0x200a) ||
  n = 0x2028 || n = 0x2029 || n = 0x202f || n = 0x205f || n = 0x3000

def trimSpace (cs : List Char) : List Char :=
  ((cs.dropWhile isSpace).reverse.dropWhile isSpace).reverse

/-- `strings.Count(s, pat)` for a non-empty pattern: non-overlapping occurrences, leftmost first -/
def countOcc (pat : List Char) : List Char → Nat → Nat
  | [], _ => 0
  | c :: cs, skip =>
    if skip > 0 then countOcc pat cs (skip - 1)
    else if pat.isPrefixOf (c :: cs) then 1 + countOcc pat cs (pat.length - 1)
    else countOcc pat cs 0

def hasSuffix (suf cs : List Char) : Bool := suf.reverse.isPrefixOf cs.reverse

/-- `isExprAssigned` (ast.go) -/
def isExprAssigned (s : String) : Bool :=
  let v := trimSpace s.toList
  "${{".toList.isPrefixOf v && hasSuffix "}}".toList v && countOcc "${{".toList v 0 = 1

end AL.Yaml
