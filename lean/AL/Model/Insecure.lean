import AL.Model.Sema
/-
  Model of expr_insecure.go: the bottom-up trie matcher `UntrustedInputChecker`, driven by the
  enter/leave events of the semantic checker (`Sema.Ev`).
-/
namespace AL.Insecure
open AL AL.Sema

/-- `UntrustedInputMap`: a leaf has no children (`Children == nil`). -/
inductive Trie where
  | node (name : String) (children : List Trie)
deriving Repr, Inhabited

def Trie.name : Trie → String
  | .node n _ => n

def Trie.children : Trie → List Trie
  | .node _ cs => cs

def Trie.isLeaf (t : Trie) : Bool := t.children.isEmpty

/-- `findObjectProp` -/
def Trie.child (t : Trie) (name : String) : Option Trie :=
  t.children.find? (·.name = name)

/-- a position in the trie: the path of names from the root, and the node -/
structure Cur where
  path : List String
  node : Trie
deriving Repr, Inhabited

def Cur.child (c : Cur) (name : String) : Option Cur :=
  (c.node.child name).map fun t => ⟨c.path ++ [t.name], t⟩

def Cur.pathStr (c : Cur) : String := ".".intercalate c.path

structure State where
  cur             : List Cur := []
  filteringObject : Bool := false
  safeCalls       : Nat := 0
  reports         : List (List String) := []   -- each report: the untrusted paths it names
deriving Repr, Inhabited

def insertStr (s : String) : List String → List String
  | [] => [s]
  | x :: rest => if s ≤ x then s :: x :: rest else x :: insertStr s rest

def sortStrs (l : List String) : List String := l.foldl (fun acc s => insertStr s acc) []

/-- `end()` -/
def State.finish (st : State) : State :=
  let inputs := (st.cur.filter (·.node.isLeaf)).map (·.pathStr)
  let reports := if inputs.isEmpty then st.reports else st.reports ++ [sortStrs inputs]
  { st with cur := [], filteringObject := false, reports := reports }

def State.onVar (roots : List Trie) (st : State) (name : String) : State :=
  match roots.find? (·.name = name) with
  | none => st
  | some r => { st with cur := st.cur ++ [⟨[r.name], r⟩] }

def State.onPropAccess (st : State) (name : String) : State :=
  { st with cur := st.cur.filterMap (·.child name) }

def State.onIndexAccess (st : State) : State :=
  if st.filteringObject then { st with filteringObject := false }
  else { st with cur := st.cur.filterMap (·.child "*") }

/-- `onObjectFilter`: a `*` child is followed; otherwise the cursor fans out over all children (the
first one replaces it in place, the others are appended at the end); leaves are dropped. -/
def State.onObjectFilter (st : State) : State :=
  let step (c : Cur) : Option Cur × List Cur :=
    match c.child "*" with
    | some s => (some s, [])
    | none =>
      match c.node.children with
      | [] => (none, [])
      | k :: ks => (some ⟨c.path ++ [k.name], k⟩, ks.map fun t => ⟨c.path ++ [t.name], t⟩)
  let rs := st.cur.map step
  { st with filteringObject := true, cur := rs.filterMap (·.1) ++ rs.flatMap (·.2) }

/-- `OnVisitNodeEnter` / `OnVisitNodeLeave` -/
def State.step (roots : List Trie) (st : State) : Ev → State
  | .enterSafeCall => { st with safeCalls := st.safeCalls + 1 }
  | .leave k =>
    if st.safeCalls > 0 then
      (match k with
      | .safeCall =>
        -- leaving the outermost safe call ends the chain that was pending before it
        let st' := { st with safeCalls := st.safeCalls - 1 }
        if st'.safeCalls = 0 then st'.finish else st'
      | _ => st)
    else match k with
      | .var name => (st.finish).onVar roots name
      | .objDeref p => st.onPropAccess p
      | .indexLit p => st.onPropAccess p
      | .index => st.onIndexAccess
      | .arrDeref => st.onObjectFilter
      | _ => st.finish

/-- `Init`, all events, `OnVisitEnd`: the reports of one expression. -/
def run (roots : List Trie) (evs : List Ev) : List (List String) :=
  ((evs.foldl (State.step roots) {}).finish).reports

end AL.Insecure
