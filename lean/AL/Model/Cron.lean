/-
  Model of the CRON check of rule_events.go (`checkCron`):
    * the guard on a `TZ=` / `CRON_TZ=` prefix without a blank,
    * robfig/cron v3 `Parser.Parse` for the option set `Minute | Hour | Dom | Month | Dow` (parser.go),
    * `SpecSchedule.Next` (spec.go) in UTC, and the 5-minute rule.
  Core Lean only; every function is total and structurally recursive. Strings are `List Char` (Go strings that
  are valid UTF-8; `spec.Value` comes out of the YAML decoder and always is).

  Conventions
    * a field of the schedule is a `Nat` bit mask exactly like robfig's `uint64`: bit `i` = value `i`, bit 63 = `starBit`;
    * every `fmt.Errorf` of parser.go has its own constructor of `Err`, with the arguments of the format string as payload;
      `Err.slicePanic` is not an error value: it marks the run-time panic `slice bounds out of range` of
      `spec[eq+1 : i]` with `i = -1` (what `checkCron`'s guard is there to prevent);
    * `time.LoadLocation` is a parameter (`zk : List Char → Bool`, "the zone data base knows this name") for names other
      than "", "UTC", "Local";
    * the local zone of the process is taken to be UTC (`time.Local = UTC`): a spec without prefix and `TZ=Local` are
      evaluated like `TZ=UTC`. Another zone is out of scope for the interval (`firstGap = none`).
-/
namespace AL.Cron

/-! ### strings -/

/-- `unicode.IsSpace` -/
def isSpace (c : Char) : Bool :=
  let n := c.toNat
  (9 ≤ n && n ≤ 13) || n == 32 || n == 0x85 || n == 0xA0 || n == 0x1680 || (0x2000 ≤ n && n ≤ 0x200A) ||
  n == 0x2028 || n == 0x2029 || n == 0x202F || n == 0x205F || n == 0x3000

/-- `strings.Split(s, sep)` for a one-character separator given as a predicate: always at least one piece. -/
def splitBy (p : Char → Bool) : List Char → List (List Char)
  | [] => [[]]
  | x :: xs =>
    if p x then [] :: splitBy p xs
    else match splitBy p xs with
      | q :: qs => (x :: q) :: qs
      | [] => [[x]]

/-- `strings.FieldsFunc(s, p)` (and `strings.Fields` for `p = unicode.IsSpace`): the non-empty pieces. -/
def fieldsBy (p : Char → Bool) (l : List Char) : List (List Char) :=
  (splitBy p l).filter fun q => !q.isEmpty

/-- `strings.TrimSpace` -/
def trimSpace (l : List Char) : List Char :=
  ((l.dropWhile isSpace).reverse.dropWhile isSpace).reverse

/-- `strings.Index(s, string(c))`: `none` is Go's `-1`. -/
def indexOf (c : Char) : List Char → Option Nat
  | [] => none
  | x :: xs => if x = c then some 0 else (indexOf c xs).map (· + 1)

def hasPrefix (pre l : List Char) : Bool := pre.isPrefixOf l

def tzPrefix (spec : List Char) : Bool :=
  hasPrefix "TZ=".toList spec || hasPrefix "CRON_TZ=".toList spec

/-- The part of `unicode.ToLower` that can matter for a look-up among ASCII names: ASCII letters fold; the only
non-ASCII code points whose lower case is an ASCII letter are U+0130 (→ `i`) and U+212A KELVIN SIGN (→ `k`). -/
def lowerChar (c : Char) : Char :=
  if 65 ≤ c.toNat ∧ c.toNat ≤ 90 then Char.ofNat (c.toNat + 32)
  else if c.toNat = 0x130 then 'i'
  else if c.toNat = 0x212A then 'k'
  else c

def lower (l : List Char) : List Char := l.map lowerChar

/-! ### errors, bounds, schedule -/

inductive AtoiErr where
  | syntax | range
deriving Repr, DecidableEq, Inhabited

/-- One constructor per `fmt.Errorf` of parser.go (payload = the arguments of the format), plus `slicePanic`. -/
inductive Err where
  | empty                                                        -- "empty spec string"
  | badLocation (zone : List Char)                               -- "provided bad location %s: %v"
  | noDescriptors (spec : List Char)                             -- "parser does not accept descriptors: %v"
  | multipleOptionals                                            -- "multiple optionals may not be configured"   (unreachable here)
  | fieldCountExact (want found : Nat) (fields : List (List Char)) -- "expected exactly %d fields, found %d: %s"
  | fieldCountRange (lo hi found : Nat) (fields : List (List Char)) -- "expected %d to %d fields, found %d: %s"  (unreachable here)
  | unknownOptional                                              -- "unknown optional field"                     (unreachable here)
  | tooManyHyphens (expr : List Char)                            -- "too many hyphens: %s"
  | tooManySlashes (expr : List Char)                            -- "too many slashes: %s"
  | belowMin (start min : Nat) (expr : List Char)                -- "beginning of range (%d) below minimum (%d): %s"
  | aboveMax (end_ max : Nat) (expr : List Char)                 -- "end of range (%d) above maximum (%d): %s"
  | beyondEnd (start end_ : Nat) (expr : List Char)              -- "beginning of range (%d) beyond end of range (%d): %s"
  | zeroStep (expr : List Char)                                  -- "step of range should be a positive number: %s"
  | parseInt (expr : List Char) (why : AtoiErr)                  -- "failed to parse int from %s: %s"
  | negative (num : Int) (expr : List Char)                      -- "negative number (%d) not allowed: %s"
  | badDuration (descriptor : List Char)                         -- "failed to parse duration %s: %s"            (unreachable here)
  | unrecognizedDescriptor (descriptor : List Char)              -- "unrecognized descriptor: %s"                (unreachable here)
  | slicePanic                                                   -- run-time panic, not an error value
deriving Repr, DecidableEq, Inhabited

structure Bounds where
  min : Nat
  max : Nat
  names : List (List Char × Nat)
deriving Repr, Inhabited

def seconds : Bounds := ⟨0, 59, []⟩
def minutes : Bounds := ⟨0, 59, []⟩
def hours : Bounds := ⟨0, 23, []⟩
def dom : Bounds := ⟨1, 31, []⟩
def months : Bounds := ⟨1, 12,
  [("jan".toList, 1), ("feb".toList, 2), ("mar".toList, 3), ("apr".toList, 4), ("may".toList, 5), ("jun".toList, 6),
   ("jul".toList, 7), ("aug".toList, 8), ("sep".toList, 9), ("oct".toList, 10), ("nov".toList, 11), ("dec".toList, 12)]⟩
def dow : Bounds := ⟨0, 6,
  [("sun".toList, 0), ("mon".toList, 1), ("tue".toList, 2), ("wed".toList, 3), ("thu".toList, 4), ("fri".toList, 5),
   ("sat".toList, 6)]⟩

def starBit : Nat := 2 ^ 63

inductive Loc where
  | utc                         -- `time.UTC` (zone name "" or "UTC")
  | local_                      -- `time.Local` (no prefix, or zone name "Local"); taken to be UTC
  | zone (name : List Char)     -- a zone loaded from the data base: out of scope for the interval
deriving Repr, DecidableEq, Inhabited

/-- `cron.SpecSchedule` -/
structure Sched where
  second : Nat
  minute : Nat
  hour : Nat
  dom : Nat
  month : Nat
  dow : Nat
  loc : Loc
deriving Repr, DecidableEq, Inhabited

/-! ### numbers -/

/-- the loop of `strconv.ParseUint(s, 10, 64)`: the first offending byte decides between syntax and range -/
def parseUintAux : List Char → Nat → Except AtoiErr Nat
  | [], n => .ok n
  | c :: cs, n =>
    if c.isDigit then
      let n' := n * 10 + (c.toNat - 48)
      if n' ≥ 2 ^ 64 then .error .range else parseUintAux cs n'
    else .error .syntax

def parseUint (l : List Char) : Except AtoiErr Nat :=
  if l = [] then .error .syntax else parseUintAux l 0

/-- `strconv.Atoi` on a 64-bit platform -/
def atoi (l : List Char) : Except AtoiErr Int :=
  match l with
  | '+' :: r =>
    match parseUint r with
    | .error e => .error e
    | .ok v => if v < 2 ^ 63 then .ok (v : Int) else .error .range
  | '-' :: r =>
    match parseUint r with
    | .error e => .error e
    | .ok v => if v ≤ 2 ^ 63 then .ok (-(v : Int)) else .error .range
  | _ =>
    match parseUint l with
    | .error e => .error e
    | .ok v => if v < 2 ^ 63 then .ok (v : Int) else .error .range

/-- `mustParseInt` -/
def mustParseInt (expr : List Char) : Except Err Nat :=
  match atoi expr with
  | .error e => .error (.parseInt expr e)
  | .ok n => if n < 0 then .error (.negative n expr) else .ok n.toNat

def lookupName (names : List (List Char × Nat)) (key : List Char) : Option Nat :=
  (names.find? fun e => e.1 = key).map (·.2)

/-- `parseIntOrName` -/
def parseIntOrName (expr : List Char) (names : List (List Char × Nat)) : Except Err Nat :=
  match lookupName names (lower expr) with
  | some v => .ok v
  | none => mustParseInt expr

/-! ### bit masks -/

/-- the mask with bit `i` set for every `i < n` with `p i` -/
def maskOf (p : Nat → Bool) : Nat → Nat
  | 0 => 0
  | n + 1 => maskOf p n ||| (if p n then 2 ^ n else 0)

/-- `getBits(min, max, step)` for `step ≥ 1`: bits `min, min+step, … ≤ max` -/
def getBits (lo hi step : Nat) : Nat :=
  maskOf (fun i => decide (lo ≤ i) && (i - lo) % step == 0) (hi + 1)

/-! ### one field -/

/-- `getRange`, the part in front of the slash: `(start, end, extra)` from the pieces around the hyphens -/
def rangeBase (expr : List Char) (lowAndHigh : List (List Char)) (b : Bounds) : Except Err (Nat × Nat × Nat) :=
  let low := lowAndHigh.headD []
  if low = ['*'] ∨ low = ['?'] then .ok (b.min, b.max, starBit)
  else
    match parseIntOrName low b.names with
    | .error e => .error e
    | .ok start =>
      match lowAndHigh with
      | [_] => .ok (start, start, 0)
      | [_, hi] =>
        match parseIntOrName hi b.names with
        | .error e => .error e
        | .ok e => .ok (start, e, 0)
      | _ => .error (.tooManyHyphens expr)

/-- `getRange`, the `switch len(rangeAndStep)`: `(step, end, extra)` -/
def rangeStep (expr : List Char) (rangeAndStep : List (List Char)) (singleDigit : Bool) (b : Bounds)
    (end1 extra1 : Nat) : Except Err (Nat × Nat × Nat) :=
  match rangeAndStep with
  | [_] => .ok (1, end1, extra1)
  | [_, st] =>
    match mustParseInt st with
    | .error e => .error e
    | .ok step => .ok (step, if singleDigit then b.max else end1, if step > 1 then 0 else extra1)
  | _ => .error (.tooManySlashes expr)

/-- `getRange`, the four checks and the bits -/
def rangeCheck (expr : List Char) (b : Bounds) (start end_ step extra : Nat) : Except Err Nat :=
  if start < b.min then .error (.belowMin start b.min expr)
  else if end_ > b.max then .error (.aboveMax end_ b.max expr)
  else if start > end_ then .error (.beyondEnd start end_ expr)
  else if step = 0 then .error (.zeroStep expr)
  else .ok (getBits start end_ step ||| extra)

/-- `getRange` -/
def getRange (expr : List Char) (b : Bounds) : Except Err Nat :=
  let rangeAndStep := splitBy (· == '/') expr
  let lowAndHigh := splitBy (· == '-') (rangeAndStep.headD [])
  match rangeBase expr lowAndHigh b with
  | .error e => .error e
  | .ok (start, end1, extra1) =>
    match rangeStep expr rangeAndStep (lowAndHigh.length == 1) b end1 extra1 with
    | .error e => .error e
    | .ok (step, end_, extra) => rangeCheck expr b start end_ step extra

/-- the loop of `getField` over the comma-separated pieces -/
def getFieldAux (b : Bounds) : List (List Char) → Nat → Except Err Nat
  | [], bits => .ok bits
  | e :: es, bits =>
    match getRange e b with
    | .error err => .error err
    | .ok bit => getFieldAux b es (bits ||| bit)

/-- `getField` -/
def getField (field : List Char) (b : Bounds) : Except Err Nat :=
  getFieldAux b (fieldsBy (· == ',') field) 0

/-! ### the whole spec -/

/-- `time.LoadLocation` with the zone data base as a parameter -/
def loadLocation (zk : List Char → Bool) (name : List Char) : Option Loc :=
  if name = [] ∨ name = "UTC".toList then some .utc
  else if name = "Local".toList then some .local_
  else if zk name then some (.zone name) else none

/-- `(spec[eq+1 : i], spec[i:])` with `i = Index(spec, " ")`, `eq = Index(spec, "=")`; `none` = the slice expression panics -/
def cutZone (spec : List Char) : Option (List Char × List Char) :=
  match indexOf ' ' spec, indexOf '=' spec with
  | some i, some eq =>
    if eq + 1 ≤ i then some ((spec.drop (eq + 1)).take (i - (eq + 1)), spec.drop i) else none
  | some i, none => some (spec.take i, spec.drop i)   -- eq = -1: spec[0:i] (cannot happen under a TZ prefix)
  | none, _ => none

/-- the zone prefix: location and the rest of the spec -/
def splitZone (zk : List Char → Bool) (spec : List Char) : Except Err (Loc × List Char) :=
  if tzPrefix spec then
    match cutZone spec with
    | none => .error .slicePanic
    | some (z, rest) =>
      match loadLocation zk z with
      | none => .error (.badLocation z)
      | some loc => .ok (loc, trimSpace rest)
  else .ok (.local_, spec)

/-- `normalizeFields` for `Minute | Hour | Dom | Month | Dow`: exactly five fields -/
def normalizeFields (fields : List (List Char)) : Except Err (List (List Char)) :=
  if fields.length = 5 then .ok ("0".toList :: fields) else .error (.fieldCountExact 5 fields.length fields)

/-- the six `field(...)` calls: the first error wins, later fields are not looked at -/
def parseFields (loc : Loc) : List (List Char) → Except Err Sched
  | [f0, f1, f2, f3, f4, f5] =>
    match getField f0 seconds with
    | .error e => .error e
    | .ok second =>
    match getField f1 minutes with
    | .error e => .error e
    | .ok minute =>
    match getField f2 hours with
    | .error e => .error e
    | .ok hour =>
    match getField f3 dom with
    | .error e => .error e
    | .ok dayofmonth =>
    match getField f4 months with
    | .error e => .error e
    | .ok month =>
    match getField f5 dow with
    | .error e => .error e
    | .ok dayofweek => .ok ⟨second, minute, hour, dayofmonth, month, dayofweek, loc⟩
  | _ => .error .unknownOptional

/-- `Parser.Parse` -/
def parseL (zk : List Char → Bool) (spec : List Char) : Except Err Sched :=
  if spec = [] then .error .empty
  else
    match splitZone zk spec with
    | .error e => .error e
    | .ok (loc, spec') =>
      if spec'.head? = some '@' then .error (.noDescriptors spec')
      else
        match normalizeFields (fieldsBy isSpace spec') with
        | .error e => .error e
        | .ok fields => parseFields loc fields

def parse (zk : List Char → Bool) (spec : String) : Except Err Sched := parseL zk spec.toList

/-! ### calendar (proleptic Gregorian, UTC) -/

structure Civil where
  y : Nat
  mo : Nat
  d : Nat
  h : Nat
  mi : Nat
  s : Nat
deriving Repr, DecidableEq, Inhabited

def isLeap (y : Nat) : Bool := y % 4 == 0 && (y % 100 != 0 || y % 400 == 0)

def daysIn (y m : Nat) : Nat :=
  if m = 2 then (if isLeap y then 29 else 28)
  else if m = 4 ∨ m = 6 ∨ m = 9 ∨ m = 11 then 30 else 31

/-- days of the months `1 … m` of year `y` -/
def daysUpTo (y : Nat) : Nat → Nat
  | 0 => 0
  | m + 1 => daysUpTo y m + daysIn y (m + 1)

/-- days from 0001-01-01 to the first of January of year `y ≥ 1` -/
def daysBeforeYear (y : Nat) : Nat :=
  let p := y - 1
  365 * p + p / 4 - p / 100 + p / 400

/-- days since 0001-01-01 -/
def dayNumber (y m d : Nat) : Nat := daysBeforeYear y + daysUpTo y (m - 1) + (d - 1)

/-- `time.Weekday` (Sunday = 0); 0001-01-01 is a Monday -/
def weekday (y m d : Nat) : Nat := (dayNumber y m d + 1) % 7

/-- seconds since 0001-01-01T00:00:00Z, the zero `time.Time` -/
def Civil.toSecs (c : Civil) : Nat := dayNumber c.y c.mo c.d * 86400 + c.h * 3600 + c.mi * 60 + c.s

def zeroTime : Civil := ⟨1, 1, 1, 0, 0, 0⟩
/-- `time.Unix(0, 0)` in UTC -/
def epoch : Civil := ⟨1970, 1, 1, 0, 0, 0⟩

/-! ### `SpecSchedule.Next` -/

/-- `dayMatches` -/
def dayMatches (sc : Sched) (y m d : Nat) : Bool :=
  let domMatch := sc.dom.testBit d
  let dowMatch := sc.dow.testBit (weekday y m d)
  if sc.dom.testBit 63 || sc.dow.testBit 63 then domMatch && dowMatch else domMatch || dowMatch

/-- the first `i` in `lo, lo+1, …, lo+cnt-1` with `f i = some _` -/
def findFrom {α} (f : Nat → Option α) : Nat → Nat → Option α
  | _, 0 => none
  | lo, cnt + 1 =>
    match f lo with
    | some a => some a
    | none => findFrom f (lo + 1) cnt

/-- the first `i` in `lo … hi` (inclusive) with `f i = some _` -/
def findRange {α} (lo hi : Nat) (f : Nat → Option α) : Option α := findFrom f lo (hi + 1 - lo)

/-- the year of `t + 1s` -/
def yearOfSucc (t : Civil) : Nat :=
  if t.mo = 12 ∧ t.d = 31 ∧ t.h = 23 ∧ t.mi = 59 ∧ t.s = 59 then t.y + 1 else t.y

/-- `SpecSchedule.Next(t)` for a schedule in UTC and `t` a whole second: the least calendar time after `t` whose month,
day (`dayMatches`), hour, minute and second are in the schedule, looked for up to the end of the fifth year after the
year of `t + 1s`; `none` = the zero time. The loops of the Go code (advance the month until it matches, then the day, the
hour, the minute, the second, starting over whenever a unit wraps) walk through the calendar in exactly this order. -/
def next (sc : Sched) (t : Civil) : Option Civil :=
  findRange t.y (yearOfSucc t + 5) fun y =>
    let ty := y == t.y
    findRange (if ty then t.mo else 1) 12 fun mo =>
      if !sc.month.testBit mo then none else
      let tm := ty && mo == t.mo
      findRange (if tm then t.d else 1) (daysIn y mo) fun d =>
        if !dayMatches sc y mo d then none else
        let td := tm && d == t.d
        findRange (if td then t.h else 0) 23 fun h =>
          if !sc.hour.testBit h then none else
          let th := td && h == t.h
          findRange (if th then t.mi else 0) 59 fun mi =>
            if !sc.minute.testBit mi then none else
            let tmi := th && mi == t.mi
            findRange (if tmi then t.s + 1 else 0) 59 fun s =>
              if sc.second.testBit s then some ⟨y, mo, d, h, mi, s⟩ else none

/-- `Next` with the zero time for "not found" -/
def nextTime (sc : Sched) (t : Civil) : Civil := (next sc t).getD zeroTime

def maxDuration : Int := 2 ^ 63 - 1
def minDuration : Int := -(2 ^ 63)

/-- `t.Sub(u)` in nanoseconds: saturating -/
def subNanos (t u : Civil) : Int :=
  let d : Int := ((t.toSecs : Int) - (u.toSecs : Int)) * 1000000000
  if d > maxDuration then maxDuration else if d < minDuration then minDuration else d

/-- `start := sched.Next(time.Unix(0,0)); next := sched.Next(start); next.Sub(start)` in nanoseconds, for a schedule in UTC -/
def gapNanos (sc : Sched) : Int :=
  let start := nextTime sc epoch
  subNanos (nextTime sc start) start

/-- the interval of `checkCron`; `none` for a schedule in a zone other than UTC (out of scope) -/
def firstGap (sc : Sched) : Option Int :=
  match sc.loc with
  | .zone _ => none
  | _ => some (gapNanos sc)

/-- `diff < 60.0*5` with `diff = next.Sub(start).Seconds()` -/
def tooFrequent (sc : Sched) : Bool := gapNanos sc < 300 * 1000000000

/-! ### `checkCron` -/

inductive Diag' where
  | noScheduleAfterZone (spec : List Char)    -- "invalid CRON format %q in schedule event: no schedule follows the time zone"
  | invalidFormat (spec : List Char) (e : Err) -- "invalid CRON format %q in schedule event: %s"
  | tooFrequent (nanos : Int)                  -- "scheduled job runs too frequently. it runs once per %g seconds. …"
deriving Repr, DecidableEq, Inhabited

/-- the guard in front of the parser -/
def guard (spec : List Char) : Bool := tzPrefix spec && !spec.contains ' '

inductive Verdict where
  | diags (l : List Diag')          -- what `checkCron` reports
  | outOfScope (sc : Sched)         -- the spec parses, but names a zone other than UTC: the interval is not modelled
deriving Repr, DecidableEq, Inhabited

def checkCronL (zk : List Char → Bool) (spec : List Char) : Verdict :=
  if guard spec then .diags [.noScheduleAfterZone spec]
  else
    match parseL zk spec with
    | .error e => .diags [.invalidFormat spec e]
    | .ok sc =>
      match firstGap sc with
      | none => .outOfScope sc
      | some ns => if ns < 300 * 1000000000 then .diags [.tooFrequent ns] else .diags []

def checkCron (zk : List Char → Bool) (spec : String) : Verdict := checkCronL zk spec.toList

end AL.Cron
