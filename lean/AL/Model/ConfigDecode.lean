import AL.Model.CallMeta
/-
  config.go: `ParseConfig` — `yaml.Unmarshal` into `Config` (the struct `self-hosted-runner` with `labels []string`,
  `config-variables []string` where nil and empty differ, `paths map[string]PathConfig` with `IgnorePatterns.UnmarshalYAML`)
  and the validation of the glob keys in sorted order. `regexp.Compile` and `doublestar.ValidatePattern` are parameters.
-/
namespace AL.ConfigDecode
open AL.Yaml AL.PW AL.CallMeta

structure Config where
  labels : List String := []
  /-- `none` = nil: configuration variables are not checked; `some []`: none is allowed -/
  configVars : Option (List String) := none
  /-- glob ↦ the regular expressions of its `ignore:` (Go map: order irrelevant) -/
  paths : List (String × List String) := []
deriving Repr

/-- the elements of a `[]string`: a null element is dropped (yaml.v3's `d.null` does not report a string as set) -/
def decStrs : List Node → D (List String)
  | [] => .ok []
  | c :: cs =>
    if c.isNull then decStrs cs
    else match decStr c with
      | .error e => .error e
      | .ok s => (decStrs cs).map (s :: ·)

/-- a `[]string` field: `none` = nil -/
def decStrSlice (n : Node) : D (Option (List String)) :=
  match n.kind with
  | .alias => .error .unsupported
  | .sequence => (decStrs n.content).map some
  | .scalar => if n.tag = "!!null" then .ok none else .error .decode
  | _ => .error .decode

def setRunner (st : List String) (name : String) (v : Node) : D (List String) :=
  match name with
  | "labels" => (decStrSlice v).map fun l => l.getD []
  | _ => .ok st

def patternsOf (regexOk : String → Bool) : List Node → D (List String)
  | [] => .ok []
  | p :: ps =>
    if p.kind = .alias then .error .unsupported
    else if !regexOk p.value then .error .decode
    else (patternsOf regexOk ps).map (p.value :: ·)

/-- `IgnorePatterns.UnmarshalYAML` -/
def decIgnore (regexOk : String → Bool) (n : Node) : D (List String) :=
  match n.kind with
  | .alias => .error .unsupported
  | .sequence => patternsOf regexOk n.content
  | _ => .error .decode

def setPath (regexOk : String → Bool) (st : List String) (name : String) (v : Node) : D (List String) :=
  match name with
  | "ignore" => viaUnmarshaler (decIgnore regexOk) v
  | _ => .ok st

def pathsLoop (regexOk : String → Bool) : List (Node × Node) → D (List (String × List String))
  | [] => .ok []
  | (k, v) :: rest =>
    if isMerge k then .error .unsupported
    else if k.isNull then pathsLoop regexOk rest      -- a null key is not set as a string: the entry is dropped
    else match decStr k with
      | .error e => .error e
      | .ok key =>
        match structDecode ["ignore"] (setPath regexOk) [] v with
        | .error e => .error e
        | .ok pats => (pathsLoop regexOk rest).map ((key, pats) :: ·)

/-- a `map[string]PathConfig` field -/
def decPaths (regexOk : String → Bool) (n : Node) : D (List (String × List String)) :=
  match n.kind with
  | .alias => .error .unsupported
  | .mapping => if hasDupKey (pairs n.content) then .error .decode else pathsLoop regexOk (pairs n.content)
  | .scalar => if n.tag = "!!null" then .ok [] else .error .decode
  | _ => .error .decode

def setConfig (regexOk : String → Bool) (st : Config) (name : String) (v : Node) : D Config :=
  match name with
  | "self-hosted-runner" => (structDecode ["labels"] setRunner [] v).map fun l => { st with labels := l }
  | "config-variables" => (decStrSlice v).map fun l => { st with configVars := l }
  | "paths" => (decPaths regexOk v).map fun p => { st with paths := p }
  | _ => .ok st

/-- `ParseConfig` on the document node: decoding, then the glob keys are validated in sorted order -/
def parseConfig (regexOk globOk : String → Bool) (doc : Node) : D Config :=
  match doc.content with
  | [] => .ok {}
  | root :: _ =>
    match structDecode ["self-hosted-runner", "config-variables", "paths"] (setConfig regexOk) {} root with
    | .error e => .error e
    | .ok c => if (c.paths.map (·.1)).all globOk then .ok c else .error .decode

end AL.ConfigDecode
