import AL.Model.Scan
/-
  Model of glob.go (`validateGlob`, `ValidateRefGlob`, `ValidatePathGlob`), statement by statement.
  Messages are data: `GMsg` enumerates the templates, characters are code points (`none` = EOF).
-/
namespace AL.Glob
open AL

inductive What where
  | none | qmark | plus | classContent | classEnd | range | classMatch | neg
deriving Repr, DecidableEq, Inhabited

inductive Why where
  | prec | empty | missing | noEnd | single | newline | follow
  | badRange (lo hi : Nat)
deriving Repr, DecidableEq, Inhabited

inductive RefWhy where
  | chars | esc | endsWith | startsWith
deriving Repr, DecidableEq, Inhabited

inductive GMsg where
  | emptyPattern
  | scan (k : ScanErrKind)
  | unexpected (ch : Option Nat) (what : What) (why : Why)   -- `none` = EOF
  | invalidRef (ch : Option Nat) (why : RefWhy)              -- `none` = rune -1 (Peek at EOF)
  | leadingSpace
  | trailingSpace
deriving Repr, DecidableEq, Inhabited

structure GErr where
  col : Nat
  msg : GMsg
deriving Repr, DecidableEq, Inhabited

structure GState where
  scan : Scanner
  prec : Bool := false
  errs : List GErr := []
deriving Repr, Inhabited

/-- Column reported by `globValidator.error` for the scanner's current position. -/
def errCol (s : Scanner) : Nat :=
  let p := s.pos
  if p.line > 1 then 0 else p.col - 1

def scanErrs (es : List ScanErr) : List GErr :=
  es.map fun e => ⟨if e.pos.line > 1 then 0 else e.pos.col - 1, .scan e.kind⟩

def GState.error (st : GState) (m : GMsg) : GState :=
  { st with errs := st.errs ++ [⟨errCol st.scan, m⟩] }

/-- `v.scan.Next()` on the validator state; scanner errors raised while reading are appended. -/
def GState.next (st : GState) : Option Sym × GState :=
  let (c, s, e) := st.scan.next
  (c, { st with scan := s, errs := st.errs ++ scanErrs e })

def GState.peek (st : GState) : Option Nat := st.scan.peek

def symRune : Option Sym → Option Nat
  | some c => some c.r
  | none => none

@[simp] theorem GState.next_scan (st : GState) : (st.next).2.scan = (st.scan.next).2.1 := rfl
@[simp] theorem GState.error_scan (st : GState) (m : GMsg) : (st.error m).scan = st.scan := rfl

theorem GState.next_le (st : GState) : (st.next).2.scan.remaining ≤ st.scan.remaining :=
  Scanner.next_remaining_le st.scan

theorem GState.next_lt (st : GState) (h : st.scan.ch ≠ none) : (st.next).2.scan.remaining < st.scan.remaining :=
  Scanner.next_remaining_lt st.scan h

/-- Result of the character-class loop (`Loop:` in glob.go). -/
inductive ClassEnd where
  | closed (last : Option Nat)   -- left by `break Loop`; `last` is the value of `c`
  | eof                          -- `return false` from `validateNext`
deriving Repr, DecidableEq

/-- The `Loop:` of `validateNext`, with `chars` as accumulator. -/
def classLoop (st : GState) (chars : Nat) : ClassEnd × Nat × GState :=
  match hch : st.scan.ch with
  | none =>
    -- c = Next() = EOF
    (.eof, chars, (st.next).2.error (.unexpected none .classEnd .missing))
  | some c0 =>
    let st1 := (st.next).2
    have hlt : st1.scan.remaining < st.scan.remaining := st.next_lt (by simp [hch])
    if c0.r = 93 then  -- ']'
      (.closed (some 93), chars, st1)
    else if st1.peek ≠ some 45 then  -- not '-'
      classLoop st1 (chars + 1)
    else
      -- range: eat '-'
      let st2 := (st1.next).2
      have hle2 : st2.scan.remaining ≤ st1.scan.remaining := st1.next_le
      match st2.peek with
      | some 93 =>
        let st3 := (st2.next).2
        (.closed (some 93), chars + 2, st3.error (.unexpected (some 93) .range .noEnd))
      | none => classLoop st2 (chars + 2)
      | some _ =>
        let r3 := st2.next
        let st3 := r3.2
        have hle3 : st3.scan.remaining ≤ st2.scan.remaining := st2.next_le
        let e := symRune r3.1
        if c0.r > e.getD 0 then
          classLoop (st3.error (.unexpected e .range (.badRange c0.r (e.getD 0)))) (chars + 2)
        else classLoop st3 (chars + 2)
termination_by st.scan.remaining
decreasing_by
  all_goals (first | exact hlt | omega | (simp +zetaDelta only [GState.error_scan] at *; omega))

abbrev SwitchRes := Except GState (Option Nat × Bool × GState)

def SwitchRes.state : SwitchRes → GState
  | .ok (_, _, s) => s
  | .error s => s

/-- The `switch c { … }` of `validateNext`: `.ok (c, prec, state)` when control reaches the code after
the switch, `.error state` for the `return false` inside the character-class loop. `prec0` is `v.prec`
on entry, `c` the character just returned by `Next`, `st0` the state after that `Next`. -/
def switchBody (isRef : Bool) (prec0 : Bool) (c : Option Nat) (st0 : GState) : SwitchRes :=
  match c with
  | some 92 => -- '\\'
    (match st0.peek with
    | some 91 | some 63 | some 42 => -- '[', '?', '*'
      let r1 := st0.next
      let st1 := r1.2
      let st2 := if isRef then st1.error (.invalidRef (symRune r1.1) .chars) else st1
      .ok (symRune r1.1, true, st2)
    | some 43 | some 92 | some 33 => -- '+', '\\', '!'
      let r1 := st0.next
      .ok (symRune r1.1, true, r1.2)
    | _ =>
      if isRef then
        let st1 := st0.error (.invalidRef (some 92) .esc)
        let r2 := st1.next
        .ok (symRune r2.1, true, r2.2)
      else .ok (c, true, st0))
  | some 63 => -- '?'
    let st1 := if !prec0 then st0.error (.unexpected (some 63) .qmark .prec) else st0
    .ok (c, false, st1)
  | some 43 => -- '+'
    let st1 := if !prec0 then st0.error (.unexpected (some 43) .plus .prec) else st0
    .ok (c, false, st1)
  | some 42 => .ok (c, false, st0) -- '*'
  | some 91 => -- '['
    if st0.peek = some 93 then
      let r1 := st0.next
      .ok (symRune r1.1, true, r1.2.error (.unexpected (some 93) .classContent .empty))
    else
      match classLoop st0 0 with
      | (.eof, _, st1) => .error st1
      | (.closed last, chars, st1) =>
        let st2 := if chars = 1 then st1.error (.unexpected last .classMatch .single) else st1
        .ok (last, true, st2)
  | some 13 => -- '\r'
    if st0.peek = some 10 then
      let r1 := st0.next
      .ok (symRune r1.1, true, r1.2.error (.unexpected (symRune r1.1) .none .newline))
    else .ok (c, true, st0.error (.unexpected c .none .newline))
  | some 10 => .ok (c, true, st0.error (.unexpected (some 10) .none .newline))
  | some 32 | some 9 | some 126 | some 94 | some 58 => -- ' ', '\t', '~', '^', ':'
    .ok (c, true, if isRef then st0.error (.invalidRef c .chars) else st0)
  | _ => .ok (c, true, st0)

/-- Code of `validateNext` after the switch. -/
def finishNext (isRef : Bool) : SwitchRes → Bool × GState
  | .error st1 => (false, st1)
  | .ok (c', prec, st1) =>
    let st2 := { st1 with prec := prec }
    if st2.peek = none then
      let st3 := if isRef && (c' = some 47 || c' = some 46) then st2.error (.invalidRef c' .endsWith) else st2
      (false, st3)
    else (true, st2)

/-- One `validateNext` call: whether the loop continues, and the new state. -/
def validateNext (isRef : Bool) (st : GState) : Bool × GState :=
  let r0 := st.next
  finishNext isRef (switchBody isRef st.prec (symRune r0.1) r0.2)

theorem classLoop_le (st : GState) (n : Nat) : (classLoop st n).2.2.scan.remaining ≤ st.scan.remaining := by
  fun_induction classLoop st n
  all_goals (try simp +zetaDelta only [GState.error_scan] at *)
  all_goals grind [GState.next_le, GState.next_lt]

theorem switchBody_le (isRef prec0 : Bool) (c : Option Nat) (st0 : GState) :
    (switchBody isRef prec0 c st0).state.scan.remaining ≤ st0.scan.remaining := by
  have hn : ∀ s : GState, (s.next).2.scan.remaining ≤ s.scan.remaining := GState.next_le
  have hc := classLoop_le st0 0
  have h1 := hn st0
  have h2 := hn (st0.error (.invalidRef (some 92) .esc))
  unfold switchBody
  repeat' split
  all_goals (simp only [SwitchRes.state, GState.error_scan] at *)
  all_goals (try omega)
  all_goals (first | (rename_i heq; rw [heq] at hc; exact hc) | (rename_i heq _; rw [heq] at hc; exact hc))

theorem finishNext_scan (isRef : Bool) (r : SwitchRes) : (finishNext isRef r).2.scan = r.state.scan := by
  unfold finishNext
  split
  · rfl
  · simp only [SwitchRes.state]
    repeat' split
    all_goals simp [GState.error]

theorem validateNext_lt (isRef : Bool) (st : GState) (h : st.scan.ch ≠ none) :
    (validateNext isRef st).2.scan.remaining < st.scan.remaining := by
  unfold validateNext
  simp only [finishNext_scan]
  have := switchBody_le isRef st.prec (symRune st.next.1) st.next.2
  have := st.next_lt h
  omega

/-- `for v.validateNext() {}`. -/
def loop (isRef : Bool) (st : GState) : GState :=
  let r := validateNext isRef st
  if h : st.scan.ch = none then r.2
  else if r.1 then loop isRef r.2 else r.2
termination_by st.scan.remaining
decreasing_by exact validateNext_lt isRef st h

/-- `globValidator.validate`. -/
def validate (isRef : Bool) (src : List Sym) : List GErr :=
  let (sc, e0) := Scanner.init src
  if src.isEmpty then [⟨0, .emptyPattern⟩]
  else
    let st : GState := { scan := sc, errs := scanErrs e0 }
    match st.peek with
    | some 47 => -- '/'
      if isRef then
        let st1 := (st.next).2
        let st2 := st1.error (.invalidRef (some 47) .startsWith)
        (loop isRef { st2 with prec := true }).errs
      else (loop isRef st).errs
    | some 33 => -- '!'
      let st1 := (st.next).2
      if st1.peek = none then
        (st1.error (.unexpected (some 33) .neg .follow)).errs
      else (loop isRef { st1 with prec := false }).errs
    | _ => (loop isRef st).errs

/-- `ValidateRefGlob`. -/
def validateRef (src : List Sym) : List GErr := validate true src

/-- `ValidatePathGlob`; `byteLen` is `len(pat)`. -/
def validatePath (src : List Sym) : List GErr :=
  let byteLen := (src.map (·.w)).sum
  if src.head?.map (·.r) = some 32 then [⟨0, .leadingSpace⟩]
  else if src.getLast?.map (·.r) = some 32 then [⟨byteLen, .trailingSpace⟩]
  else validate false src

end AL.Glob
