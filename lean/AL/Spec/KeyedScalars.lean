import AL.Spec.ValueScalars
/-
  The DOCUMENT side of "every position of the document is checked under the workflow key GitHub's table gives it"
  (AL.Props.C12Parse): every value scalar of a workflow document paired with the WORKFLOW KEY of its position — the name of
  the row of the context-availability table
  (https://docs.github.com/actions/reference/workflows-and-actions/contexts#context-availability) that governs the position,
  `""` where the table has no row (no context and no special function is available there).

  Like AL/Spec/ValueScalars.lean this file imports the node type only (through ValueScalars, which imports nothing else):
  nothing here calls, or knows of, the parser model or the rule. WHICH scalars are values is the business of
  ValueScalars (`leaves`, `typedLeaves`, `exprPos`, and the walks of the sections that lie under ONE key); what is new here
  is the second component. `keyedScalars_fst` (AL/Lemmas/C12PBase.lean) proves that the first components of
  `keyedScalars doc` ARE `valueScalars doc`, in the same order.

  The walk descends by key wherever the table has a finer row further down:

    workflow      `run-name`, `env`, `concurrency`                                      — `workflowKeyKeyed`
    `on:`         `on.workflow_call.inputs.<inputs_id>.default`,
                  `on.workflow_call.outputs.<output_id>.value`                          — `callInputAttrKeyed`, `callOutputAttrKeyed`
    job           `jobs.<job_id>.name` / `.if` / `.runs-on` / `.env` / `.concurrency` / `.outputs.<output_id>` /
                  `.continue-on-error` / `.timeout-minutes` / `.defaults.run` / `.strategy` /
                  `.with.<with_id>` / `.secrets.<secrets_id>`                           — `jobKeyKeyed`
    environment   `jobs.<job_id>.environment`, `jobs.<job_id>.environment.url`          — `environmentKeyKeyed`
    container     `jobs.<job_id>.container` (+ `.credentials`, `.env.<env_id>`)          — `containerKeyKeyed`
    services      `jobs.<job_id>.services` (+ `.<service_id>.credentials`, `.<service_id>.env.<env_id>`) — `servicesKeyed`
    step          `jobs.<job_id>.steps.name` / `.if` / `.run` / `.env` / `.with` / `.working-directory` /
                  `.continue-on-error` / `.timeout-minutes`                             — `stepKeyKeyed`

  ONE deviation from the table, inherited from the rule (AL.C12R, `container_image_row`): the `image:` of a job's
  `container:` has the row `jobs.<job_id>.container.image` in the table; the rule checks it under the key of the section,
  `jobs.<job_id>.container`, and so does this walk. The two rows are equal.

  Positions WITHOUT a key (`""`): the workflow's `name` and `defaults.run.*`, everything under `on:` except the two
  positions above, a job's `needs` and `uses`, a step's `shell` and `uses`.
-/
namespace AL.C12P
open AL.Yaml AL.C03P

/-- the scalars `l` sit at a position whose workflow key is `key` -/
def under (key : String) (l : List Node) : List (Node × String) := l.map fun v => (v, key)

/-- the walk through a node at a position where the workflow syntax has a mapping whose entries lie under different keys:
`g key value` says what counts below each pair, and under which workflow key. A null node at such a position is the empty
mapping; any other node is taken as it stands, under the key `dflt` of the position itself. (The counterpart of
`AL.C03P.mapScalars`.) -/
def mapKeyed (n : Node) (dflt : String) (g : String → Node → List (Node × String)) : List (Node × String) :=
  if n.kind = .mapping || n.isNull then (pairs n.content).flatMap (fun p => g p.1.value p.2) else under dflt (leaves n)

/-- the same at a position that takes a string or a mapping (`container`, `environment`): a null node is a value there
(the counterpart of `AL.C03P.leaves` at such a position) -/
def subKeyed (n : Node) (dflt : String) (g : String → Node → List (Node × String)) : List (Node × String) :=
  if n.kind = .mapping then (pairs n.content).flatMap (fun p => g p.1.value p.2) else under dflt (leaves n)

/-- the walk through a node at a position where the workflow syntax has a sequence (counterpart of `seqScalars`) -/
def seqKeyed (n : Node) (dflt : String) (g : Node → List (Node × String)) : List (Node × String) :=
  if n.kind = .sequence then n.content.flatMap g else under dflt (leaves n)

/-! ### a step -/

/-- what counts below the key `k` of a step, and under which workflow key -/
def stepKeyKeyed (k : String) (x : Node) : List (Node × String) :=
  match k with
  | "id" => []   -- exempt (not a value scalar): the step id
  | "name" => under "jobs.<job_id>.steps.name" (leaves x)
  | "if" => under "jobs.<job_id>.steps.if" (leaves x)
  | "run" => under "jobs.<job_id>.steps.run" (leaves x)
  | "working-directory" => under "jobs.<job_id>.steps.working-directory" (leaves x)
  | "env" => under "jobs.<job_id>.steps.env" (leaves x)
  | "with" => under "jobs.<job_id>.steps.with" (leaves x)   -- every input, `entrypoint` and `args` included
  | "continue-on-error" => under "jobs.<job_id>.steps.continue-on-error" (typedLeaves ["!!bool"] x)
  | "timeout-minutes" => under "jobs.<job_id>.steps.timeout-minutes" (typedLeaves ["!!float", "!!int"] x)
  | _ => under "" (leaves x)   -- `shell`, `uses`: the table has no row

/-- **the value scalars of a step node, each with its key** -/
def stepKeyed (n : Node) : List (Node × String) := mapKeyed n "" stepKeyKeyed

/-- `steps:` -/
def stepsKeyed (n : Node) : List (Node × String) := seqKeyed n "" stepKeyed

/-! ### the sections of a job with finer rows -/

/-- below the key `k` of a container: `credentials` and `env` have rows of their own, `image`, `ports`, `volumes`,
`options` the row of the section -/
def containerKeyKeyed (kSect kCred kEnv : String) (k : String) (y : Node) : List (Node × String) :=
  match k with
  | "credentials" => under kCred (leaves y)
  | "env" => under kEnv (leaves y)
  | _ => under kSect (leaves y)

/-- a container: an image name or a mapping -/
def containerKeyed (kSect kCred kEnv : String) (x : Node) : List (Node × String) :=
  subKeyed x kSect (containerKeyKeyed kSect kCred kEnv)

/-- `services:` — one `${{ }}` or a mapping from service names to containers (`exprPos` of ValueScalars: nothing is
claimed below a collection node that carries a text) -/
def servicesKeyed (x : Node) : List (Node × String) :=
  if x.kind = .scalar || x.value = "" then
    mapKeyed x "jobs.<job_id>.services" fun _ c =>
      containerKeyed "jobs.<job_id>.services" "jobs.<job_id>.services.<service_id>.credentials"
        "jobs.<job_id>.services.<service_id>.env.<env_id>" c
  else []

def environmentKeyKeyed (k : String) (y : Node) : List (Node × String) :=
  match k with
  | "url" => under "jobs.<job_id>.environment.url" (leaves y)
  | _ => under "jobs.<job_id>.environment" (leaves y)   -- `name`

/-- `environment:` — a name or a mapping with `name` / `url` -/
def environmentKeyed (x : Node) : List (Node × String) := subKeyed x "jobs.<job_id>.environment" environmentKeyKeyed

/-! ### a job -/

/-- what counts below the key `k` of a job, and under which workflow key -/
def jobKeyKeyed (k : String) (x : Node) : List (Node × String) :=
  match k with
  | "permissions" => []   -- exempt: `permissions` values
  | "name" => under "jobs.<job_id>.name" (leaves x)
  | "if" => under "jobs.<job_id>.if" (leaves x)
  | "runs-on" => under "jobs.<job_id>.runs-on" (runsOnScalars x)
  | "env" => under "jobs.<job_id>.env" (leaves x)
  | "environment" => environmentKeyed x
  | "concurrency" => under "jobs.<job_id>.concurrency" (concurrencyScalars x)
  | "outputs" => under "jobs.<job_id>.outputs.<output_id>" (leaves x)
  | "continue-on-error" => under "jobs.<job_id>.continue-on-error" (typedLeaves ["!!bool"] x)
  | "timeout-minutes" => under "jobs.<job_id>.timeout-minutes" (typedLeaves ["!!float", "!!int"] x)
  | "defaults" => under "jobs.<job_id>.defaults.run" (leaves x)
  | "strategy" => under "jobs.<job_id>.strategy" (strategyScalars x)   -- the matrix, at any depth, included
  | "container" =>
    containerKeyed "jobs.<job_id>.container" "jobs.<job_id>.container.credentials" "jobs.<job_id>.container.env.<env_id>" x
  | "services" => servicesKeyed x
  | "steps" => stepsKeyed x
  | "with" => under "jobs.<job_id>.with.<with_id>" (leaves x)
  -- exempt: `secrets: inherit`
  | "secrets" =>
    if x.kind = .scalar && x.value = "inherit" then [] else under "jobs.<job_id>.secrets.<secrets_id>" (leaves x)
  | _ => under "" (leaves x)   -- `needs`, `uses`: the table has no row

/-- **the value scalars of a job node, each with its key** -/
def jobKeyed (n : Node) : List (Node × String) := mapKeyed n "" jobKeyKeyed

/-- `jobs:` — a mapping from job ids to jobs -/
def jobsKeyed (n : Node) : List (Node × String) := mapKeyed n "" fun _ j => jobKeyed j

/-! ### `on:` — two rows, both under `workflow_call` -/

/-- below one attribute of an input of `workflow_call` -/
def callInputAttrKeyed (k : String) (y : Node) : List (Node × String) :=
  match k with
  | "default" => if y.isNull then [] else under "on.workflow_call.inputs.<inputs_id>.default" (leaves y)
  | _ => under "" (callInputAttrScalars k y)   -- `description`, `required` (`type` is exempt)

/-- below one attribute of an output of `workflow_call` -/
def callOutputAttrKeyed (k : String) (z : Node) : List (Node × String) :=
  match k with
  | "value" => under "on.workflow_call.outputs.<output_id>.value" (leaves z)
  | _ => under "" (leaves z)   -- `description`

def callKeyKeyed (k : String) (y : Node) : List (Node × String) :=
  match k with
  | "inputs" => mapKeyed y "" fun _ spec => mapKeyed spec "" callInputAttrKeyed
  | "outputs" => mapKeyed y "" fun _ spec => mapKeyed spec "" callOutputAttrKeyed
  | _ => under "" (callKeyScalars k y)   -- `secrets`

def callKeyed (x : Node) : List (Node × String) := mapKeyed x "" callKeyKeyed

/-- below the key `k` (an event name) of the `on:` mapping -/
def eventKeyed (k : String) (x : Node) : List (Node × String) :=
  match k with
  | "workflow_call" => callKeyed x
  | _ => under "" (eventScalars k x)   -- every other event: no row

/-- the `on:` section (event names are exempt) -/
def onKeyed (x : Node) : List (Node × String) :=
  if x.kind = .mapping then mapKeyed x "" eventKeyed else under "" (onScalars x)

/-! ### the workflow -/

/-- below the top-level key `k` -/
def workflowKeyKeyed (k : String) (x : Node) : List (Node × String) :=
  match k with
  | "on" => onKeyed x
  | "permissions" => []   -- exempt
  | "run-name" => under "run-name" (leaves x)
  | "env" => under "env" (leaves x)
  | "concurrency" => under "concurrency" (concurrencyScalars x)
  | "jobs" => jobsKeyed x
  | _ => under "" (leaves x)   -- `name`, `defaults`: the table has no row

/-- **every value scalar of a workflow document with the workflow key of its position** -/
def keyedScalars (doc : Node) : List (Node × String) :=
  match doc.content with
  | root :: _ => mapKeyed root "" workflowKeyKeyed
  | [] => []

end AL.C12P
