import AL.Model.Matrix
/-
  Declarative notions for C19: structural equality of raw YAML values modulo member order, and
  well-formedness (distinct member keys, as in a Go map).
-/
namespace AL.Spec
open AL.Matrix

mutual
/-- Member keys of every mapping (at any depth) are pairwise distinct. -/
def RawWF : Raw → Prop
  | .str _ _ => True
  | .arr es _ => RawWFList es
  | .obj ps _ => (ps.map (·.1)).Nodup ∧ RawWFProps ps
def RawWFList : List Raw → Prop
  | [] => True
  | e :: es => RawWF e ∧ RawWFList es
def RawWFProps : List (String × Raw) → Prop
  | [] => True
  | (_, v) :: ps => RawWF v ∧ RawWFProps ps
end

/-- Structural equality modulo the order of mapping members (positions ignored). -/
inductive Same : Raw → Raw → Prop
  | str (v : String) (p q : P) : Same (.str v p) (.str v q)
  | arr (es fs : List Raw) (p q : P) (hlen : es.length = fs.length)
      (h : ∀ i (h1 : i < es.length) (h2 : i < fs.length), Same es[i] fs[i]) : Same (.arr es p) (.arr fs q)
  | obj (ps qs : List (String × Raw)) (p q : P)
      (hlen : ps.length = qs.length)
      (hdom : ∀ k v, (k, v) ∈ ps → (lookup k qs).isSome)
      (h : ∀ k v w, (k, v) ∈ ps → lookup k qs = some w → Same v w) : Same (.obj ps p) (.obj qs q)

end AL.Spec
