import AL.Model.Needs
/-
  Declarative graph notions for C18, independent of the DFS.
-/
namespace AL.Spec
open AL.Needs

/-- `g` is well-formed: every resolved dependency is a node index. -/
def WF (g : Graph) : Prop := ∀ v w, w ∈ g.succ v → w < g.length

/-- A walk `v₀ → v₁ → … → v_k` along `needs` edges (as the list of its vertices). -/
inductive Walk (g : Graph) : List Nat → Prop
  | single (v : Nat) (h : v < g.length) : Walk g [v]
  | cons (v w : Nat) (rest : List Nat) (hv : v < g.length) (he : w ∈ g.succ v) (hw : Walk g (w :: rest)) : Walk g (v :: w :: rest)

/-- A closed walk with at least one edge: first = last, length ≥ 2 (a self loop is `[v, v]`). -/
def IsCycle (g : Graph) (vs : List Nat) : Prop :=
  Walk g vs ∧ 2 ≤ vs.length ∧ vs.head? = vs.getLast?

def Cyclic (g : Graph) : Prop := ∃ vs, IsCycle g vs

end AL.Spec
