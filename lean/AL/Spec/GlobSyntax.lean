import AL.Model.Hex
/-
  Declarative syntax of GitHub Actions filter patterns (branches / tags / paths filters), written from
  the documentation (filter-pattern cheat sheet + `man git-check-ref-format` for refs), not from glob.go:

    pattern  ::= [ '!' ] element+                  -- a leading '!' always negates; something must follow
    element  ::= ordinary | '\' escapable | '*' | ( '?' | '+' ) | '[' item+ ']'
    item     ::= member | member '-' member        -- a member followed by '-' always starts a range

  * `?` and `+` need a predecessor that is not special: an ordinary character, an escape or a `[...]`.
  * `[...]` must not be empty, must not consist of exactly one single member, ranges need `lo ≤ hi`.
  * no line breaks, no NUL, no invalid UTF-8.
  * paths: `\` followed by one of `[ ? * + \ !` is an escape; any other `\` is an ordinary character.
  * refs:  `\` may only escape `+ \ !`; space TAB `~ ^ :` are not allowed; the pattern must not start
    with `/` and must not end with `/` or `.`.

  `strict = true` additionally applies the line-break / ref-character rules to the members of `[...]`.
-/
namespace AL.Spec
open AL

/-- Not NUL and not an invalid UTF-8 byte. -/
def OkSym (c : Sym) : Prop := c.bad = false ∧ c.r ≠ 0

def AllOk (l : List Sym) : Prop := ∀ c ∈ l, OkSym c

/-- Space, TAB, `~`, `^`, `:` — not allowed in Git ref names. -/
def RefInvalid (r : Nat) : Prop := r = 32 ∨ r = 9 ∨ r = 126 ∨ r = 94 ∨ r = 58

/-- CR or LF. -/
def LineBreak (r : Nat) : Prop := r = 13 ∨ r = 10

/-- A character that stands for itself at top level: not one of `\ ? + * [`, no line break, and for
refs not one of the characters Git forbids. -/
def Ordinary (isRef : Bool) (c : Sym) : Prop :=
  c.r ≠ 92 ∧ c.r ≠ 63 ∧ c.r ≠ 43 ∧ c.r ≠ 42 ∧ c.r ≠ 91 ∧ ¬ LineBreak c.r ∧ (isRef = true → ¬ RefInvalid c.r)

/-- `[ ? * + \ !` — the characters after which a `\` in a path filter is an escape. -/
def PathEscapable (r : Nat) : Prop := r = 91 ∨ r = 63 ∨ r = 42 ∨ r = 43 ∨ r = 92 ∨ r = 33

/-- Characters that may follow `\` without a report: `+ \ !` for refs, all of `[ ? * + \ !` for paths. -/
def Escapable (isRef : Bool) (r : Nat) : Prop :=
  r = 43 ∨ r = 92 ∨ r = 33 ∨ (isRef = false ∧ (r = 91 ∨ r = 63 ∨ r = 42))

/-- One item of a character class. -/
inductive Item where
  | single (c : Sym)
  | range (lo hi : Sym)

/-- A member of a character class: anything but `]`; in the strict reading also no line break and,
for refs, none of the characters Git forbids. -/
def Member (strict isRef : Bool) (c : Sym) : Prop :=
  c.r ≠ 93 ∧ (strict = true → ¬ LineBreak c.r ∧ (isRef = true → ¬ RefInvalid c.r))

/-- `ClassBody l items rest`: `l` is `item* ']' rest`. -/
inductive ClassBody (strict isRef : Bool) : List Sym → List Item → List Sym → Prop where
  | close (c : Sym) (rest : List Sym) : c.r = 93 → ClassBody strict isRef (c :: rest) [] rest
  | single (c : Sym) (l : List Sym) (items : List Item) (rest : List Sym) :
      Member strict isRef c → l.head?.map (·.r) ≠ some 45 → ClassBody strict isRef l items rest →
      ClassBody strict isRef (c :: l) (.single c :: items) rest
  | range (lo d hi : Sym) (l : List Sym) (items : List Item) (rest : List Sym) :
      Member strict isRef lo → d.r = 45 → Member strict isRef hi → lo.r ≤ hi.r →
      ClassBody strict isRef l items rest →
      ClassBody strict isRef (lo :: d :: hi :: l) (.range lo hi :: items) rest

/-- Not empty and not exactly one single member. -/
def ClassOK (items : List Item) : Prop := items ≠ [] ∧ ∀ c, items ≠ [.single c]

/-- `Elems strict isRef p l`: `l` is a sequence of elements, where `p` tells whether the element before
`l` exists and is not special (so that `?` / `+` may come first in `l`). -/
inductive Elems (strict isRef : Bool) : Bool → List Sym → Prop where
  | nil (p : Bool) : Elems strict isRef p []
  | ord (p : Bool) (c : Sym) (rest : List Sym) :
      Ordinary isRef c → Elems strict isRef true rest → Elems strict isRef p (c :: rest)
  | bslash (p : Bool) (c : Sym) (rest : List Sym) :
      isRef = false → c.r = 92 → (∀ d, rest.head? = some d → ¬ PathEscapable d.r) →
      Elems strict isRef true rest → Elems strict isRef p (c :: rest)
  | esc (p : Bool) (b c : Sym) (rest : List Sym) :
      b.r = 92 → Escapable isRef c.r → Elems strict isRef true rest → Elems strict isRef p (b :: c :: rest)
  | star (p : Bool) (c : Sym) (rest : List Sym) :
      c.r = 42 → Elems strict isRef false rest → Elems strict isRef p (c :: rest)
  | opt (c : Sym) (rest : List Sym) :
      c.r = 63 ∨ c.r = 43 → Elems strict isRef false rest → Elems strict isRef true (c :: rest)
  | cls (p : Bool) (o : Sym) (l : List Sym) (items : List Item) (rest : List Sym) :
      o.r = 91 → ClassBody strict isRef l items rest → ClassOK items → Elems strict isRef true rest →
      Elems strict isRef p (o :: l)

/-- The part after an optional leading `!`. -/
def body (src : List Sym) : List Sym :=
  if src.head?.map (·.r) = some 33 then src.tail else src

/-- Ref-name rules about the ends of the pattern. -/
def RefEnds (src : List Sym) : Prop :=
  src.head?.map (·.r) ≠ some 47 ∧ src.getLast?.map (·.r) ≠ some 47 ∧ src.getLast?.map (·.r) ≠ some 46

/-- A syntactically valid filter pattern. -/
def ValidGlobGen (strict isRef : Bool) (src : List Sym) : Prop :=
  AllOk src ∧ body src ≠ [] ∧ Elems strict isRef false (body src) ∧ (isRef = true → RefEnds src)

/-- The documented syntax, character-class members checked like other characters. -/
def ValidGlob (isRef : Bool) (src : List Sym) : Prop := ValidGlobGen true isRef src

/-- The same, but members of `[...]` are unrestricted (apart from NUL / invalid UTF-8). -/
def ValidGlobLoose (isRef : Bool) (src : List Sym) : Prop := ValidGlobGen false isRef src

end AL.Spec
