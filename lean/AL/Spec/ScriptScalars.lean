import AL.Spec.ValueScalars
/-
  The DOCUMENT side of property C11 ("untrusted inputs are reported in scripts, and only there"; AL.Props.C11Doc): which
  nodes of a workflow document are SCRIPTS — read off the yaml.Node tree along the documented workflow syntax
  (https://docs.github.com/actions/reference/workflow-syntax-for-github-actions, and
  https://docs.github.com/actions/security-guides/security-hardening-for-github-actions#understanding-the-risk-of-script-injections).
  Like AL/Spec/ValueScalars.lean this file imports the node type only: nothing here calls, or knows of, the parser model
  or the rule.

  The script positions of a document:

    * the value of `run:` of every element of `steps:` of every job (every value of `jobs:`);
    * the value under the key `script` — the key in any letter case: input names are case-insensitive — of `with:` of a
      step whose `uses:` text, folded, starts with `actions/github-script@`.

  Conventions of the walk:

    * a key is looked up by its TEXT (`text`): the value of a scalar node; a collection node has no text (yaml.v3 gives
      every collection node the empty `Value`; the model's `Node` type allows more, so the walk says it);
    * the keys of the workflow syntax (`jobs`, `steps`, `run`, `uses`, `with`) are looked up AS WRITTEN (`lookup`): the
      workflow syntax is case-sensitive there; only the input name `script` is folded (`lookupFolded`), with the folding
      function `lower` the walk is given (`strings.ToLower` in actionlint);
    * where a key occurs twice in a mapping the FIRST occurrence counts (YAML forbids the repetition; actionlint reports
      it and keeps the first);
    * a mapping position holds pairs only when the node IS a mapping (`entries`), a sequence position elements only when
      the node IS a sequence (`elements`).

  `scriptKNodes` lists the NODES at script positions, each with the workflow key of the position
  (`jobs.<job_id>.steps.run` / `jobs.<job_id>.steps.with`, the rows of the context-availability table);
  `scriptKScalars` keeps those that are scalars (a collection at a script position is a syntax error and has no text);
  `scriptScalars` forgets the key.
-/
namespace AL.C11D
open AL.Yaml

/-- the text of a node: the value of a scalar; a collection has none -/
def text (n : Node) : String := if n.kind = .scalar then n.value else ""

/-- the key / value pairs of a node at a position where the workflow syntax has a (non-empty) mapping -/
def entries (n : Node) : List (Node × Node) := if n.kind = .mapping then pairs n.content else []

/-- the elements of a node at a position where the workflow syntax has a sequence -/
def elements (n : Node) : List Node := if n.kind = .sequence then n.content else []

/-- the value under the key written `k` (the first such key) -/
def lookup (n : Node) (k : String) : Option Node := ((entries n).find? fun p => text p.1 = k).map (·.2)

/-- the value under the key whose text folds to `k` (the first such key) -/
def lookupFolded (lower : String → String) (n : Node) (k : String) : Option Node :=
  ((entries n).find? fun p => lower (text p.1) = k).map (·.2)

/-! ### a step -/

/-- the step runs `actions/github-script`: its `uses:` text, folded, starts with `actions/github-script@` -/
def isGithubScriptStep (lower : String → String) (st : Node) : Bool :=
  match lookup st "uses" with
  | some u => (lower (text u)).startsWith "actions/github-script@"
  | none => false

/-- the value of `run:` of a step node -/
def stepRunNodes (st : Node) : List Node := (lookup st "run").toList

/-- the value of the `script` input of a step node that runs `actions/github-script` -/
def stepScriptInputNodes (lower : String → String) (st : Node) : List Node :=
  if isGithubScriptStep lower st then ((lookup st "with").bind fun w => lookupFolded lower w "script").toList else []

/-- the nodes at the script positions of a step node, each with the workflow key of its position -/
def stepScriptKNodes (lower : String → String) (st : Node) : List (Node × String) :=
  (stepRunNodes st).map (fun x => (x, "jobs.<job_id>.steps.run")) ++
  (stepScriptInputNodes lower st).map (fun x => (x, "jobs.<job_id>.steps.with"))

/-! ### jobs, the document -/

/-- the elements of `steps:` of a job node -/
def jobStepNodes (job : Node) : List Node := (lookup job "steps").toList.flatMap elements

/-- the job nodes of a document: the values of the mapping under `jobs:` of the root mapping -/
def docJobNodes (doc : Node) : List Node :=
  match doc.content with
  | root :: _ => ((lookup root "jobs").toList.flatMap entries).map (·.2)
  | [] => []

/-- the step nodes of a document -/
def docStepNodes (doc : Node) : List Node := (docJobNodes doc).flatMap jobStepNodes

/-- **the nodes at the script positions of a workflow document**, each with the workflow key of its position -/
def scriptKNodes (lower : String → String) (doc : Node) : List (Node × String) :=
  (docStepNodes doc).flatMap (stepScriptKNodes lower)

/-- **the script scalars of a workflow document, each with the workflow key of its position** -/
def scriptKScalars (lower : String → String) (doc : Node) : List (Node × String) :=
  (scriptKNodes lower doc).filter fun p => p.1.kind = .scalar

/-- **the script scalars of a workflow document**: the scalar under `run:` of every element of every job's `steps:`, and
the scalar under the key `script` (folded) of `with:` of a step whose `uses:` text folds to `actions/github-script@…` -/
def scriptScalars (lower : String → String) (doc : Node) : List Node := (scriptKScalars lower doc).map Prod.fst

end AL.C11D
