import AL.Model.Sema
/-
  "Less precise type information" for C06: `Looser t t'` — `t'` is obtained from `t` by replacing any
  number of type occurrences by `any` and opening any number of strict objects.
-/
namespace AL.Spec
open AL AL.Sema

mutual
inductive Looser : Ty → Ty → Prop
  | refl (t : Ty) : Looser t t
  | toAny (t : Ty) : Looser t .any
  | arr {e e' : Ty} (d : Bool) : Looser e e' → Looser (.arr e d) (.arr e' d)
  | obj {ps ps' : List (String × Ty)} {m m' : Option Ty} : LooserProps ps ps' → LooserMapped m m' → Looser (.obj ps m) (.obj ps' m')
/-- same keys in the same order, pointwise looser -/
inductive LooserProps : List (String × Ty) → List (String × Ty) → Prop
  | nil : LooserProps [] []
  | cons {k : String} {t t' : Ty} {ps ps' : List (String × Ty)} : Looser t t' → LooserProps ps ps' → LooserProps ((k, t) :: ps) ((k, t') :: ps')
/-- a strict object may be opened (`none ↦ some any`); a mapped type may be loosened -/
inductive LooserMapped : Option Ty → Option Ty → Prop
  | none : LooserMapped none none
  | opened : LooserMapped none (some .any)
  | some {t t' : Ty} : Looser t t' → LooserMapped (some t) (some t')
end

/-- Environments that differ only in the precision of the context types. -/
structure LooserEnv (Γ Γ' : Env) : Prop where
  vars         : LooserProps Γ.vars Γ'.vars
  funcs        : Γ'.funcs = Γ.funcs
  specialFuncs : Γ'.specialFuncs = Γ.specialFuncs
  availCtx     : Γ'.availCtx = Γ.availCtx
  availSpecial : Γ'.availSpecial = Γ.availSpecial
  configVars   : Γ'.configVars = Γ.configVars
  lower        : Γ'.lower = Γ.lower
  fromJson     : Γ'.fromJson = Γ.fromJson

/-- all overloads of a function name return the same type (true of the built-in table) -/
def SameRet (funcs : List (String × List Sig)) : Prop :=
  ∀ n sigs, (n, sigs) ∈ funcs → ∀ s₁ ∈ sigs, ∀ s₂ ∈ sigs, s₁.ret = s₂.ret

end AL.Spec
