/-
  Hand-written expectations about the workflow syntax, written from GitHub's workflow-syntax reference
  (https://docs.github.com/en/actions/using-workflows/workflow-syntax-for-github-actions), NOT from
  parse.go. The regenerated facts in AL/Gen/Syntax.lean are compared with these tables on every run.
-/
namespace AL.Spec.Syntax

/-- AST leaf fields that are NOT expression templates, with the reason. Everything else that holds user
text must be handed to a `check…` method of rule_expression.go. -/
def exemptLeaves : List (String × String) := [
  -- mapping KEYS (names chosen by the user or fixed by the syntax), not values
  ("DispatchInput", "Name"), ("Input", "Name"), ("Job", "ID"), ("MatrixAssign", "Key"), ("MatrixRow", "Name"),
  ("Output", "Name"), ("PermissionScope", "Name"), ("Service", "Name"), ("WebhookEventFilter", "Name"),
  ("WorkflowCallEventInput", "Name"), ("WorkflowCallEventOutput", "Name"), ("WorkflowCallEventSecret", "Name"),
  ("WorkflowCallInput", "Name"), ("WorkflowCallSecret", "Name"),
  -- documented exceptions of the property: event names and `permissions` values are not evaluated
  ("WebhookEvent", "Hook"), ("PermissionScope", "Value"), ("Permissions", "All"),
  -- elements of a raw YAML array are reached through the recursion of checkRawYAMLValue on the array itself
  ("RawYAMLArray", "Elems")
]

/-- `case "key"` branches whose target is not a field named after the key, with the reason -/
def renamedCases : List (String × String) := [
  -- events are appended to the result list, not stored in a field
  ("parseEvents", "schedule"), ("parseEvents", "workflow_dispatch"), ("parseEvents", "repository_dispatch"), ("parseEvents", "workflow_call"),
  -- `with:` of a step / job is spread over several fields (Inputs, Entrypoint, Args)
  ("parseStep", "with"), ("parseJob", "with"),
  -- workflow_dispatch input attributes are collected in locals ($desc $req $def $ty $opts) and stored together
  ("parseWorkflowDispatchEvent", "description"), ("parseWorkflowDispatchEvent", "required"), ("parseWorkflowDispatchEvent", "default"),
  ("parseWorkflowDispatchEvent", "type"), ("parseWorkflowDispatchEvent", "options"),
  -- single-key mappings are handled by `if kv.id != "key" { unexpectedKey }`, the body then fills the struct
  ("parseDefaults", "run"), ("parseWorkflowDispatchEvent", "inputs")
]

/-- the accepted key set of every fixed mapping of the workflow syntax, per parse function (sorted) -/
def keySets : List (String × List String) := [
  ("parse", ["concurrency", "defaults", "env", "jobs", "name", "on", "permissions", "run-name"]),
  ("parseConcurrency", ["cancel-in-progress", "group"]),
  ("parseContainer", ["credentials", "env", "image", "options", "password", "ports", "username", "volumes"]),
  ("parseDefaults", ["run", "shell", "working-directory"]),
  ("parseEnvironment", ["name", "url"]),
  ("parseEvents", ["repository_dispatch", "schedule", "workflow_call", "workflow_dispatch"]),
  ("parseJob", ["concurrency", "container", "continue-on-error", "defaults", "env", "environment", "if", "name", "needs",
                "outputs", "permissions", "runs-on", "secrets", "services", "steps", "strategy", "timeout-minutes", "uses", "with"]),
  ("parseMatrix", ["exclude", "include"]),
  ("parseRunsOn", ["group", "labels"]),
  ("parseStep", ["args", "continue-on-error", "entrypoint", "env", "id", "if", "name", "run", "shell", "timeout-minutes",
                 "uses", "with", "working-directory"]),
  ("parseStrategy", ["fail-fast", "matrix", "max-parallel"]),
  ("parseWebhookEvent", ["branches", "branches-ignore", "paths", "paths-ignore", "tags", "tags-ignore", "types", "workflows"]),
  ("parseWorkflowCallEvent", ["default", "description", "inputs", "outputs", "required", "secrets", "type", "value"]),
  ("parseWorkflowDispatchEvent", ["default", "description", "inputs", "options", "required", "type"])
]

/-- number of `default:` branches that report an unexpected key, per parse function -/
def unexpectedKeyDefaults : List (String × Nat) := [
  ("parse", 1), ("parseConcurrency", 1), ("parseContainer", 2), ("parseDefaults", 2), ("parseEnvironment", 1),
  ("parseJob", 1), ("parseRunsOn", 1), ("parseStep", 1), ("parseStrategy", 1), ("parseWebhookEvent", 1),
  ("parseWorkflowCallEvent", 4), ("parseWorkflowDispatchEvent", 2)
]

/-- mappings whose keys are user-chosen names and therefore compared case-insensitively: (function, section) -/
def caseInsensitiveSections : List (String × String) := [
  ("parseEnv", "env"), ("parseJob", "secrets"), ("parseJob", "with"), ("parseJobs", "jobs"), ("parseMatrix", "matrix"),
  ("parseMatrixCombinations", "$expr"), ("parseOutputs", "outputs"), ("parsePermissions", "permissions"),
  ("parseRawYAMLValue", "matrix row value"), ("parseServices", "services"), ("parseStep", "with"),
  ("parseWorkflowCallEvent", "inputs"), ("parseWorkflowCallEvent", "outputs"), ("parseWorkflowCallEvent", "secrets"),
  ("parseWorkflowDispatchEvent", "inputs")
]

end AL.Spec.Syntax
