import AL.Model.Yaml
/-
  The DOCUMENT side of "the parser drops no value scalar silently" (AL.Props.C03Parse): which scalar nodes of a workflow
  document are VALUES — a walk over the yaml.Node tree along the documented workflow syntax
  (https://docs.github.com/actions/reference/workflow-syntax-for-github-actions). This file imports the node type only:
  nothing here calls, or knows of, the parser model.

  The rule of the walk: below a key, EVERYTHING counts (`leaves`: every scalar that is a mapping value or a sequence
  element, at any depth) unless the position is exempt. The walk descends by key only where an exempt position lies
  further down; every exemption is marked `exempt:` with the clause of property C03 (or the rule) that owns it:

    * event names                       — `onScalars`
    * `permissions` values              — `workflowKeyScalars`, `jobKeyScalars`
    * a step `id`                       — `stepKeyScalars`
    * the input `type`                  — `dispatchAttrScalars`, `callInputAttrScalars`
    * `secrets: inherit`                — `jobKeyScalars`
    * mapping KEYS                      — `leaves`, `mapScalars` (only values are ever collected)
    * what the parser keeps as a VALUE, not as a string: a scalar the YAML resolver tagged `!!bool` / `!!int` /
      `!!float` at a position that takes a boolean / a number — `typedLeaves`
    * a null node at a mapping position (`on: {push: }`) is the empty mapping, not a value — `mapScalars`

  Four places where a scalar with a text really is dropped without a diagnostic; each is left out of the walk at exactly
  that position and proved on a concrete witness in AL.Props.C03Parse (all need an explicit YAML tag, or a tree no YAML
  text produces):
    1. a scalar TAGGED `!!bool` at a boolean position is a literal whatever its text (`typedLeaves`;
       `finding_bool_tagged_text`)
    2. a node TAGGED `!!null` as the `default:` of a `workflow_call` input sets no default whatever its text
       (`callInputAttrScalars`; `finding_call_input_null_default`)
    3. a node TAGGED `!!null` where a mapping may be empty is the empty mapping whatever its text (`mapScalars`;
       `finding_null_tagged_mapping`)
    4. a collection node that carries a text is read as one `${{ }}` at `services`, `runs-on`, `runs-on.labels`
       (`exprPos`; `observation_collection_with_text` — not the image of any YAML document)
-/
namespace AL.C03P
open AL.Yaml

mutual
/-- the scalar nodes in value position below a node (the node itself when it is a scalar; the elements of a sequence; the
VALUES of a mapping — never its keys), at any depth. An alias node is not followed (parse.go never does). -/
def leaves : Node → List Node
  | .mk .scalar t v q l c cs => [.mk .scalar t v q l c cs]
  | .mk .sequence _ _ _ _ _ cs => leavesSeq cs
  | .mk .mapping _ _ _ _ _ cs => leavesMap cs
  | .mk .document _ _ _ _ _ _ => []
  | .mk .alias _ _ _ _ _ _ => []
def leavesSeq : List Node → List Node
  | [] => []
  | c :: cs => leaves c ++ leavesSeq cs
def leavesMap : List Node → List Node
  | _ :: v :: rest => leaves v ++ leavesMap rest
  | _ => []
end

/-- the walk through a node at a position where the workflow syntax has a mapping: `g key value` says what counts below
each pair (`key` is the text of the key node). A null node at such a position is the empty mapping (`on: {push: }`), not a
value; any other node is taken as it stands. -/
def mapScalars (n : Node) (g : String → Node → List Node) : List Node :=
  if n.kind = .mapping || n.isNull then (pairs n.content).flatMap (fun p => g p.1.value p.2) else leaves n

/-- the walk through a node at a position where the workflow syntax has a sequence -/
def seqScalars (n : Node) (g : Node → List Node) : List Node :=
  if n.kind = .sequence then n.content.flatMap g else leaves n

/-- a position that takes a boolean / number literal or a `${{ }}` string: a scalar the YAML resolver tagged with one of
`tags` is a literal — the parser keeps its VALUE (`Bool.Value`, `Int.Value`, `Float.Value`), not a string (exempt: "what
the parser does not keep as a string") -/
def typedLeaves (tags : List String) (n : Node) : List Node :=
  if n.kind = .scalar && tags.contains n.tag then [] else leaves n

/-- positions that take one `${{ }}` in place of a collection (`services`, `runs-on`, `runs-on.labels`): the parser looks
at the `Value` of the node whatever its kind. yaml.v3 gives every collection node the empty `Value`; the model's `Node`
type also allows collection nodes with a text, which are not the image of any YAML document — nothing is claimed below
such a node. -/
def exprPos (x : Node) (l : List Node) : List Node := if x.kind = .scalar || x.value = "" then l else []

/-! ### a step -/

/-- what counts below the key `k` of a step -/
def stepKeyScalars (k : String) (x : Node) : List Node :=
  match k with
  | "id" => []   -- exempt: the step id (property: "step `id`"; rule_id owns it)
  | "continue-on-error" => typedLeaves ["!!bool"] x
  | "timeout-minutes" => typedLeaves ["!!float", "!!int"] x
  | _ => leaves x   -- name, if, run, shell, working-directory, uses, with.*, env.*

/-- **the value scalars of a step node** -/
def stepScalars (n : Node) : List Node := mapScalars n stepKeyScalars

/-- `steps:` -/
def stepsScalars (n : Node) : List Node := seqScalars n stepScalars

/-! ### the sections of a job -/

def concurrencyKeyScalars (k : String) (y : Node) : List Node :=
  match k with
  | "cancel-in-progress" => typedLeaves ["!!bool"] y
  | _ => leaves y

/-- `concurrency:` — one string or a mapping -/
def concurrencyScalars (x : Node) : List Node :=
  if x.kind = .scalar then leaves x else mapScalars x concurrencyKeyScalars

/-- `services:` — one `${{ }}` or a mapping from service names to containers -/
def servicesScalars (x : Node) : List Node := exprPos x (mapScalars x fun _ c => leaves c)

def runsOnKeyScalars (k : String) (y : Node) : List Node :=
  match k with
  | "labels" => exprPos y (leaves y)
  | _ => leaves y

/-- `runs-on:` — a label, a sequence of labels, one `${{ }}`, or a mapping with `labels` / `group` -/
def runsOnScalars (x : Node) : List Node :=
  exprPos x (if x.kind = .mapping then mapScalars x runsOnKeyScalars else leaves x)

def strategyKeyScalars (k : String) (y : Node) : List Node :=
  match k with
  | "fail-fast" => typedLeaves ["!!bool"] y
  | "max-parallel" => typedLeaves ["!!int"] y
  | _ => leaves y   -- matrix: rows, include, exclude — every scalar at any nesting depth

def strategyScalars (x : Node) : List Node := mapScalars x strategyKeyScalars

/-! ### a job -/

/-- what counts below the key `k` of a job -/
def jobKeyScalars (k : String) (x : Node) : List Node :=
  match k with
  | "permissions" => []   -- exempt: `permissions` values (property; rule_permissions owns them)
  | "steps" => stepsScalars x
  | "continue-on-error" => typedLeaves ["!!bool"] x
  | "timeout-minutes" => typedLeaves ["!!float", "!!int"] x
  | "strategy" => strategyScalars x
  | "concurrency" => concurrencyScalars x
  | "runs-on" => runsOnScalars x
  | "services" => servicesScalars x
  -- exempt: `secrets: inherit` (property; the parser keeps the flag `InheritSecrets`, not a string)
  | "secrets" => if x.kind = .scalar && x.value = "inherit" then [] else leaves x
  | _ => leaves x   -- name, needs, env, defaults, if, container, environment, outputs, uses, with

/-- **the value scalars of a job node** -/
def jobScalars (n : Node) : List Node := mapScalars n jobKeyScalars

/-- `jobs:` — a mapping from job ids to jobs -/
def jobsScalars (n : Node) : List Node := mapScalars n fun _ j => jobScalars j

/-! ### `on:` -/

/-- below one attribute of an input of `workflow_dispatch` -/
def dispatchAttrScalars (k : String) (y : Node) : List Node :=
  match k with
  | "type" => []   -- exempt: the input `type` (property; the parser keeps an enumeration value, not a string)
  | "required" => typedLeaves ["!!bool"] y
  | _ => leaves y   -- description, default, options

def dispatchKeyScalars (k : String) (y : Node) : List Node :=
  match k with
  | "inputs" => mapScalars y fun _ spec => mapScalars spec dispatchAttrScalars
  | _ => leaves y

def dispatchScalars (x : Node) : List Node := mapScalars x dispatchKeyScalars

/-- an event whose value is a (possibly empty) mapping without exempt positions: `repository_dispatch` and the webhook
events with their `types` and filters -/
def plainEventScalars (x : Node) : List Node := mapScalars x fun _ y => leaves y

/-- below one attribute of an input of `workflow_call` -/
def callInputAttrScalars (k : String) (y : Node) : List Node :=
  match k with
  | "type" => []   -- exempt: the input `type`
  | "required" => typedLeaves ["!!bool"] y
  -- FINDING (harmless): `default:` with a null node sets no default value and is not reported; a node tagged `!!null`
  -- is dropped whatever its text (`AL.C03P.callInput_null_default_dropped`)
  | "default" => if y.isNull then [] else leaves y
  | _ => leaves y   -- description

def callSecretAttrScalars (k : String) (y : Node) : List Node :=
  match k with
  | "required" => typedLeaves ["!!bool"] y
  | _ => leaves y   -- description

def callKeyScalars (k : String) (y : Node) : List Node :=
  match k with
  | "inputs" => mapScalars y fun _ spec => mapScalars spec callInputAttrScalars
  | "secrets" => mapScalars y fun _ spec => mapScalars spec callSecretAttrScalars
  | "outputs" => mapScalars y fun _ spec => mapScalars spec fun _ z => leaves z   -- description, value
  | _ => leaves y

def callScalars (x : Node) : List Node := mapScalars x callKeyScalars

/-- below the key `k` (an event name) of the `on:` mapping -/
def eventScalars (k : String) (x : Node) : List Node :=
  match k with
  | "schedule" => leaves x   -- the cron strings
  | "workflow_dispatch" => dispatchScalars x
  | "workflow_call" => callScalars x
  | _ => plainEventScalars x   -- `repository_dispatch` and every webhook event

/-- **the value scalars of the `on:` section**. exempt: event names (property: "event names") — the scalar `on: push`,
the scalar elements of `on: [push, pull_request]`; in the mapping form the names are keys. -/
def onScalars (x : Node) : List Node :=
  match x.kind with
  | .scalar => []
  | .sequence => x.content.flatMap fun c => if c.kind = .scalar then [] else leaves c
  | .mapping => mapScalars x eventScalars
  | _ => []

/-! ### the workflow -/

/-- below the top-level key `k` -/
def workflowKeyScalars (k : String) (x : Node) : List Node :=
  match k with
  | "on" => onScalars x            -- exempt inside: event names, input `type`
  | "permissions" => []            -- exempt: `permissions` values (property; rule_permissions owns them)
  | "concurrency" => concurrencyScalars x
  | "jobs" => jobsScalars x        -- exempt inside: step `id`, job `permissions`, `secrets: inherit`
  | _ => leaves x                  -- name, run-name, env, defaults

/-- **the value scalars of a workflow document**: the scalar nodes that are mapping values or sequence elements, at any
depth, below the root mapping — except the exempt positions listed at the head of this file. -/
def valueScalars (doc : Node) : List Node :=
  match doc.content with
  | root :: _ => mapScalars root workflowKeyScalars
  | [] => []

end AL.C03P
