/-
  Ledger of every `range` over a Go map in non-test files, classified by hand (why the iteration order
  cannot reach the output):
    commutative — the body only copies / tests / inserts per key; the result is the same for every order
    sorted      — names or ids are collected and sorted before they reach a message or a loop that reports
    positions   — every iteration reports only at positions owned by its own entry; the final stable sort by
                  (file, line, column) then fixes the order (C15 stable_sort_key)
    selection   — a minimum by source position is selected; ties are impossible (distinct positions)
  The regenerated table AL/Gen/MapRanges.lean must equal this ledger (site AND order-sensitive effects in
  the body): a new map range, or one whose body starts to report / return / append, is an open obligation.
-/
namespace AL.Spec

def mapRangeLedger : List (String × String × String × Nat × String × String) := [
  ("ast.go", "Equals", "o.Props", 1, "return", "commutative"),
  ("ast.go", "String", "o.Props", 1, "append", "sorted"),
  ("config.go", "PathConfigs", "cfg.Paths", 1, "append", "commutative"),
  ("config.go", "ParseConfig", "c.Paths", 1, "append", "sorted"),
  ("error.go", "NewErrorFormatter", "r", 1, "append", "sorted"),
  ("expr_insecure.go", "onObjectFilter", "cur.Children", 1, "append", "sorted"),
  ("expr_sema.go", "ensureVarsCopied", "sema.vars", 1, "", "commutative"),
  ("expr_sema.go", "UpdateSecrets", "ty.Props", 1, "", "commutative"),
  ("expr_sema.go", "UpdateDispatchInputs", "ty.Props", 1, "", "commutative"),
  ("expr_sema.go", "checkVariable", "sema.vars", 1, "append", "sorted"),
  ("expr_sema.go", "checkArrayDeref", "ty.Props", 1, "break", "commutative"),
  ("expr_sema.go", "checkBuiltinFuncCall", "holders", 1, "append", "sorted"),
  ("expr_sema.go", "checkFuncCall", "sema.funcs", 1, "append", "sorted"),
  ("expr_type.go", "String", "ty.Props", 1, "append", "sorted"),
  ("expr_type.go", "Assignable", "other.Props", 1, "return", "commutative"),
  ("expr_type.go", "Assignable", "ty.Props", 1, "return", "commutative"),
  ("expr_type.go", "Assignable", "other.Props", 2, "return", "commutative"),
  ("expr_type.go", "Merge", "ty.Props", 1, "", "commutative"),
  ("expr_type.go", "Merge", "other.Props", 1, "append", "sorted"),
  ("expr_type.go", "DeepCopy", "ty.Props", 1, "", "commutative"),
  ("expr_type.go", "typeOfJSONValue", "v", 1, "append", "sorted"),
  ("pass.go", "Visit", "n.Jobs", 1, "append", "sorted"),
  ("reusable_workflow.go", "WriteWorkflowCallEvent", "event.Outputs", 1, "", "commutative"),
  ("reusable_workflow.go", "WriteWorkflowCallEvent", "event.Secrets", 1, "", "commutative"),
  ("rule_action.go", "checkAction", "exec.Inputs", 1, "append+report", "positions"),
  ("rule_action.go", "checkAction", "meta.Inputs", 1, "append", "sorted"),
  ("rule_action.go", "checkAction", "meta.Inputs", 2, "append", "sorted"),
  ("rule_action.go", "checkAction", "meta.Inputs", 3, "append", "sorted"),
  ("rule_credentials.go", "VisitJobPre", "n.Services.Value", 1, "", "positions"),
  ("rule_env_var.go", "VisitJobPre", "n.Services.Value", 1, "", "positions"),
  ("rule_env_var.go", "checkEnv", "env.Vars", 1, "report", "positions"),
  ("rule_events.go", "checkWorkflowDispatchEvent", "event.Inputs", 1, "report", "positions"),
  ("rule_expression.go", "VisitWorkflowPre", "e.Inputs", 1, "", "positions"),
  ("rule_expression.go", "VisitWorkflowPre", "e.Secrets", 1, "", "positions"),
  ("rule_expression.go", "VisitWorkflowPre", "e.Outputs", 1, "", "positions"),
  ("rule_expression.go", "VisitJobPre", "n.Services.Value", 1, "", "positions"),
  ("rule_expression.go", "VisitJobPost", "n.Outputs", 1, "", "positions"),
  ("rule_expression.go", "VisitStep", "e.Inputs", 1, "", "positions"),
  ("rule_expression.go", "getWorkflowCallOutputsType", "m.Outputs", 1, "", "commutative"),
  ("rule_expression.go", "checkEnv", "env.Vars", 1, "", "positions"),
  ("rule_expression.go", "checkWorkflowCall", "c.Inputs", 1, "report", "positions"),
  ("rule_expression.go", "checkWorkflowCall", "c.Secrets", 1, "", "positions"),
  ("rule_expression.go", "populateDependantNeedsTypes", "j.Outputs", 1, "", "commutative"),
  ("rule_expression.go", "checkMatrixExpression", "o.Props", 1, "", "commutative"),
  ("rule_expression.go", "checkMatrix", "combi.Assigns", 1, "", "positions"),
  ("rule_expression.go", "checkMatrix", "m.Rows", 1, "", "positions"),
  ("rule_expression.go", "checkMatrix", "combi.Assigns", 2, "", "positions"),
  ("rule_expression.go", "checkWorkflowCallOutputs", "jobs", 1, "", "commutative"),
  ("rule_expression.go", "checkWorkflowCallOutputs", "j.Outputs", 1, "", "commutative"),
  ("rule_expression.go", "checkWorkflowCallOutputs", "outputs", 1, "", "positions"),
  ("rule_expression.go", "checkRawYAMLValue", "v.Props", 1, "", "positions"),
  ("rule_expression.go", "typeOfActionOutputs", "meta.Outputs", 1, "", "commutative"),
  ("rule_job_needs.go", "VisitWorkflowPost", "rule.nodes", 1, "append+report", "positions"),
  ("rule_job_needs.go", "VisitWorkflowPost", "edges", 1, "", "selection"),
  ("rule_job_needs.go", "detectFirstCycle", "nodes", 1, "append", "sorted"),
  ("rule_matrix.go", "VisitJobPre", "m.Rows", 1, "", "positions"),
  ("rule_matrix.go", "isYAMLValueSubset", "sub.Props", 1, "return", "commutative"),
  ("rule_matrix.go", "checkExclude", "m.Rows", 1, "", "commutative"),
  ("rule_matrix.go", "checkExclude", "c.Assigns", 1, "append", "commutative"),
  ("rule_matrix.go", "checkExclude", "c.Assigns", 2, "append+report", "positions"),
  ("rule_matrix.go", "checkExclude", "rows", 1, "append", "sorted"),
  ("rule_permissions.go", "checkPermissions", "p.Scopes", 1, "append+report", "positions"),
  ("rule_permissions.go", "checkPermissions", "allPermissionScopes", 1, "append", "sorted"),
  ("rule_runner_label.go", "checkConflict", "rule.compats", 1, "", "selection"),
  ("rule_workflow_call.go", "checkWorkflowCallUsesLocal", "m.Inputs", 1, "append", "sorted"),
  ("rule_workflow_call.go", "checkWorkflowCallUsesLocal", "call.Inputs", 1, "append+report", "positions"),
  ("rule_workflow_call.go", "checkWorkflowCallUsesLocal", "m.Inputs", 2, "append", "sorted"),
  ("rule_workflow_call.go", "checkWorkflowCallUsesLocal", "m.Secrets", 1, "append", "sorted"),
  ("rule_workflow_call.go", "checkWorkflowCallUsesLocal", "call.Secrets", 1, "append+report", "positions"),
  ("rule_workflow_call.go", "checkWorkflowCallUsesLocal", "m.Secrets", 2, "append", "sorted")
]

end AL.Spec
