import AL.Model.Insecure
/-
  Declarative specification of script-injection detection (C11), independent of the event machine:
  the reports of an expression are determined by its maximal access chains.
-/
namespace AL.Spec
open AL AL.Sema AL.Insecure

inductive Seg where
  | prop (name : String)     -- `.name` or `['name']` (folded)
  | idx                      -- `[expr]` with a non-literal index
  | star                     -- `.*`
deriving Repr, DecidableEq, Inhabited

/-- cursor set after following one segment from a set of trie positions; `filtering` is the
"an object filter was just applied" flag that makes the next index access a no-op -/
def follow (curs : List Cur) (filtering : Bool) : Seg → List Cur × Bool
  | .prop n => (curs.filterMap (·.child n), filtering)
  | .idx => if filtering then (curs, false) else (curs.filterMap (·.child "*"), false)
  | .star =>
    let step (c : Cur) : Option Cur × List Cur :=
      match c.child "*" with
      | some s => (some s, [])
      | none =>
        match c.node.children with
        | [] => (none, [])
        | k :: ks => (some ⟨c.path ++ [k.name], k⟩, ks.map fun t => ⟨c.path ++ [t.name], t⟩)
    let rs := curs.map step
    (rs.filterMap (·.1) ++ rs.flatMap (·.2), true)

def followAll (curs : List Cur) (filtering : Bool) : List Seg → List Cur
  | [] => curs
  | s :: rest => let (c, f) := follow curs filtering s; followAll c f rest

/-- the report (if any) of one chain `root seg₁ … segₙ` -/
def chainReport (roots : List Trie) (root : String) (segs : List Seg) : List (List String) :=
  match roots.find? (·.name = root) with
  | none => []
  | some r =>
    let leaves := ((followAll [⟨[r.name], r⟩] false segs).filter (·.node.isLeaf)).map (·.pathStr)
    if leaves.isEmpty then [] else [sortStrs leaves]

mutual
/-- reports of `e` in evaluation order. `funcs` decides which calls are defined (arguments of an
undefined function are not visited). A chain is an access path rooted at a variable; everything else
contributes the reports of its parts. Nothing is reported under contains/startsWith/endsWith. -/
def reports (roots : List Trie) (lower : String → String) (defined : String → Bool) : E → List (List String)
  | .call c args =>
    if isSafeCall lower c then []
    else if !defined (lower c) then []
    else reportsList roots lower defined args
  | .not e => reports roots lower defined e
  | .cmp _ l r => reports roots lower defined l ++ reports roots lower defined r
  | .logical _ l r => reports roots lower defined l ++ reports roots lower defined r
  | .var n => chainReport roots n []
  | .objDeref r p => chain roots lower defined r [.prop p]
  | .arrDeref r => chain roots lower defined r [.star]
  | .index r (.str v) => chain roots lower defined r [.prop (lower v)]
  | .index r i => reports roots lower defined i ++ chain roots lower defined r [.idx]
  | _ => []
/-- `chain r suffix`: reports of the access path `r` extended by the segments `suffix` (innermost first) -/
def chain (roots : List Trie) (lower : String → String) (defined : String → Bool) : E → List Seg → List (List String)
  | .var n, suffix => chainReport roots n suffix
  | .objDeref r p, suffix => chain roots lower defined r (.prop p :: suffix)
  | .arrDeref r, suffix => chain roots lower defined r (.star :: suffix)
  | .index r (.str v), suffix => chain roots lower defined r (.prop (lower v) :: suffix)
  | .index r i, suffix => reports roots lower defined i ++ chain roots lower defined r (.idx :: suffix)
  | e, _ => reports roots lower defined e   -- the path is rooted at something that is not a variable
def reportsList (roots : List Trie) (lower : String → String) (defined : String → Bool) : List E → List (List String)
  | [] => []
  | e :: es => reports roots lower defined e ++ reportsList roots lower defined es
end

end AL.Spec
