import AL.Model.Parser
/-
  The documented expression grammar (https://docs.github.com/en/actions/learn-github-actions/expressions),
  as a derivation relation over token lists, written independently of the parser:

    or      ::= and ( '||' or )?
    and     ::= cmp ( '&&' and )?
    cmp     ::= unary ( ('<' | '<=' | '>' | '>=' | '==' | '!=') cmp )?
    unary   ::= '!' unary | postfix
    postfix ::= primary ( '.' IDENT | '.' '*' | '[' or ']' )*
    primary ::= INT | FLOAT | STRING | IDENT | IDENT '(' ( or ( ',' or )* )? ')' | '(' or ')'

  `!` binds tighter than comparison, comparison tighter than `&&`, `&&` tighter than `||`.
  Literal tokens carry their value: the `Expr` is determined by the derivation.
-/
namespace AL.Spec
open AL AL.Lex AL.Parse

inductive Level where | or | and | cmp | unary | postfix | primary
deriving Repr, DecidableEq

def cmpOf : TokKind → Option CmpKind
  | .less => some .less | .lessEq => some .lessEq | .greater => some .greater
  | .greaterEq => some .greaterEq | .eq => some .eq | .notEq => some .notEq
  | _ => none

def keywordOrVar (val : List Sym) : Expr :=
  let name : List Nat := val.map (·.r)
  if name = [110, 117, 108, 108] then .null
  else if name = [116, 114, 117, 101] then .bool true
  else if name = [102, 97, 108, 115, 101] then .bool false
  else .var val

/-- String literal value: quotes stripped, `''` read as one quote. -/
def strValue : List Sym → List Sym
  | a :: b :: rest => if a.r = 39 ∧ b.r = 39 then a :: strValue rest else a :: strValue (b :: rest)
  | l => l

mutual
/-- `Der L ts e`: the token list `ts` (without END) is a sentence of level `L` denoting `e`. -/
inductive Der : Level → List Tok → Expr → Prop
  | orUp {ts e} : Der .and ts e → Der .or ts e
  | orBin {l r o el er} : Der .and l el → o.kind = .or → Der .or r er → Der .or (l ++ o :: r) (.logical .or el er)
  | andUp {ts e} : Der .cmp ts e → Der .and ts e
  | andBin {l r o el er} : Der .cmp l el → o.kind = .and → Der .and r er → Der .and (l ++ o :: r) (.logical .and el er)
  | cmpUp {ts e} : Der .unary ts e → Der .cmp ts e
  | cmpBin {l r o k el er} : Der .unary l el → cmpOf o.kind = some k → Der .cmp r er → Der .cmp (l ++ o :: r) (.cmp k el er)
  | unaryUp {ts e} : Der .postfix ts e → Der .unary ts e
  | unaryNot {ts o e} : o.kind = .not → Der .unary ts e → Der .unary (o :: ts) (.not e)
  | postUp {ts e} : Der .primary ts e → Der .postfix ts e
  | postProp {ts d i e} : Der .postfix ts e → d.kind = .dot → i.kind = .ident → Der .postfix (ts ++ [d, i]) (.objDeref e i.val)
  | postStar {ts d s e} : Der .postfix ts e → d.kind = .dot → s.kind = .star → Der .postfix (ts ++ [d, s]) (.arrDeref e)
  | postIndex {ts lb idx rb e ei} : Der .postfix ts e → lb.kind = .lbracket → Der .or idx ei → rb.kind = .rbracket →
      Der .postfix (ts ++ lb :: idx ++ [rb]) (.index e ei)
  | primInt {t v} : t.kind = .int → parseIntLit t.val = some v → Der .primary [t] (.int v)
  | primFloat {t} : t.kind = .float → floatOverflows t.val = false → Der .primary [t] (.float t.val)
  | primStr {t} : t.kind = .string → Der .primary [t] (.str (strValue ((t.val.drop 1).dropLast)))
  | primIdent {t} : t.kind = .ident → Der .primary [t] (keywordOrVar t.val)
  | primCall0 {t lp rp} : t.kind = .ident → lp.kind = .lparen → rp.kind = .rparen → Der .primary [t, lp, rp] (.call t.val [])
  | primCall {t lp rp args es} : t.kind = .ident → lp.kind = .lparen → DerArgs args es → rp.kind = .rparen →
      Der .primary (t :: lp :: args ++ [rp]) (.call t.val es)
  | primParen {lp ts rp e} : lp.kind = .lparen → Der .or ts e → rp.kind = .rparen → Der .primary (lp :: ts ++ [rp]) e
/-- one or more comma-separated arguments -/
inductive DerArgs : List Tok → List Expr → Prop
  | one {ts e} : Der .or ts e → DerArgs ts [e]
  | more {ts c rest e es} : Der .or ts e → c.kind = .comma → DerArgs rest es → DerArgs (ts ++ c :: rest) (e :: es)
end

/-- An `IDENT` directly followed by `(` starts a call, so a bare identifier sentence must not be followed by `(`;
this is the only context-dependence of the grammar (one token of look-ahead). -/
def Sentence (ts : List Tok) (e : Expr) : Prop := Der .or ts e

end AL.Spec
