import AL.Model.Lexer
/-
  The documented lexical grammar of expressions, independent of the lexer's control flow:
  identifiers `[A-Za-z_][A-Za-z0-9_-]*`; strings `'…'` with `''` as the only escape; numbers in the
  JSON forms the lexer lets through plus `0x` hex; operators and punctuation.
-/
namespace AL.Spec
open AL AL.Lex

def runes (l : List Sym) : List Nat := l.map (·.r)

/-- `(0|[1-9][0-9]*)` -/
def DecInt (l : List Nat) : Prop := l = [48] ∨ (∃ d ds, l = d :: ds ∧ 49 ≤ d ∧ d ≤ 57 ∧ ∀ x ∈ ds, isNum x = true)

/-- `0x(0|[1-9a-fA-F][0-9a-fA-F]*)` -/
def HexInt (l : List Nat) : Prop :=
  ∃ body, l = 48 :: 120 :: body ∧ (body = [48] ∨ (∃ d ds, body = d :: ds ∧ isHexNum d = true ∧ d ≠ 48 ∧ ∀ x ∈ ds, isHexNum x = true))

def optMinus (P : List Nat → Prop) (l : List Nat) : Prop := P l ∨ ∃ t, l = 45 :: t ∧ P t

def Digits1 (l : List Nat) : Prop := l ≠ [] ∧ ∀ x ∈ l, isNum x = true

/-- `-?(0|[1-9][0-9]*)(\.[0-9]+)?([eE]-?(0|[1-9][0-9]*))?` with a fraction or an exponent present -/
def FloatLit (l : List Nat) : Prop :=
  ∃ ip frac exp, optMinus DecInt ip ∧
    (frac = [] ∨ ∃ ds, frac = 46 :: ds ∧ Digits1 ds) ∧
    (exp = [] ∨ ∃ e ds, exp = e :: ds ∧ (e = 101 ∨ e = 69) ∧ optMinus DecInt ds) ∧
    (frac ≠ [] ∨ exp ≠ []) ∧ l = ip ++ frac ++ exp

/-- string body: any characters, a quote only as `''` -/
inductive StrBody : List Nat → Prop
  | nil : StrBody []
  | char (c : Nat) (rest : List Nat) : c ≠ 39 → StrBody rest → StrBody (c :: rest)
  | esc (rest : List Nat) : StrBody rest → StrBody (39 :: 39 :: rest)

/-- The spelling of a token of each kind. -/
def Spelling (k : TokKind) (val : List Sym) : Prop :=
  let l := runes val
  match k with
  | .ident => ∃ c cs, l = c :: cs ∧ (isAlpha c = true ∨ c = 95) ∧ ∀ x ∈ cs, isIdentChar x = true
  | .string => ∃ body, l = 39 :: body ++ [39] ∧ StrBody body
  | .int => optMinus DecInt l ∨ optMinus HexInt l
  | .float => FloatLit l
  | .lparen => l = [40] | .rparen => l = [41] | .lbracket => l = [91] | .rbracket => l = [93]
  | .dot => l = [46] | .not => l = [33] | .less => l = [60] | .lessEq => l = [60, 61]
  | .greater => l = [62] | .greaterEq => l = [62, 61] | .eq => l = [61, 61] | .notEq => l = [33, 61]
  | .and => l = [38, 38] | .or => l = [124, 124] | .star => l = [42] | .comma => l = [44]
  | .end => l = [125, 125] ∨ l = []
  | .unknown => False

end AL.Spec
