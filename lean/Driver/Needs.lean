import AL.Model.Needs
import Driver.Util
namespace Driver.Needs
open AL.Needs Driver

def parseNeed (s : String) : Option NeedRef :=
  match s.splitOn "@" with
  | [h, l, c] => do
    let v ← unhexStr h
    pure { value := v, pos := ⟨l.toNat!, c.toNat!⟩ }
  | _ => none

def parseJob (s : String) : Option JobIn :=
  match s.splitOn "," with
  | [h, il, ic, jl, jc, needs] => do
    let id ← unhexStr h
    let ns ← (splitOn1 (if needs = "." then "" else needs) "/").mapM parseNeed
    pure { idValue := id, idPos := ⟨il.toNat!, ic.toNat!⟩, jobPos := ⟨jl.toNat!, jc.toNat!⟩, needs := ns }
  | _ => none

def diagS : Diag → String
  | .dupNeeds p v => s!"dn,{p.line},{p.col},{hexStr v}"
  | .dupJob p v q => s!"dj,{p.line},{p.col},{hexStr v},{q.line},{q.col}"
  | .undefined p i d => s!"ud,{p.line},{p.col},{hexStr i},{hexStr d}"
  | .cyclic c => s!"cy,{c.pos.line},{c.pos.col},{">".intercalate (c.path.map hexStr)}"

def isCyc : Diag → Bool
  | .cyclic _ => true
  | _ => false

/-- `needs all <jobs>`: every iteration order of the node map; `needs id <jobs>`: declaration order only. -/
def handle : List String → String
  | [mode, jobsS] =>
    match (splitOn1 (if jobsS = "." then "" else jobsS) ";").mapM parseJob with
    | none => "bad-op"
    | some jobs =>
      let n := (visitJobs lower jobs []).1.length
      -- "all": every iteration order of the node map (what the theorems quantify over);
      -- "pos": nodes in source-position order (what detectFirstCycle does since the determinism fix)
      let nodes := (visitJobs lower jobs []).1
      let byPos := (List.range n).toArray.qsort (fun a b =>
        let pa := (nodes[a]?.map (·.pos)).getD ⟨0, 0⟩
        let pb := (nodes[b]?.map (·.pos)).getD ⟨0, 0⟩
        pa.isBefore pb) |>.toList
      let orders := if mode = "all" then perms (List.range n) else if mode = "pos" then [byPos] else [List.range n]
      let runs := orders.map fun o => check lower jobs o
      let common := match runs with
        | r :: _ => dedupSorted ((r.filter (!isCyc ·)).map diagS)
        | [] => []
      let commonRaw := match runs with
        | r :: _ => ((r.filter (!isCyc ·)).map diagS).length
        | [] => 0
      let cycs := dedupSorted (runs.map fun r => match r.filter isCyc with
        | d :: _ => diagS d
        | [] => "none")
      s!"{commonRaw}|{"|".intercalate common}#{"|".intercalate cycs}"
  | _ => "bad-op"

end Driver.Needs
