import AL.Model.ExprConv
import AL.Model.Insecure
import AL.Model.Json
import AL.Gen.Builtins
import Driver.Util
namespace Driver.SemaD
open AL AL.Sema AL.Insecure Driver

partial def tyOf : SExp → Option Ty
  | .atom "any" => some .any
  | .atom "null" => some .null
  | .atom "number" => some .number
  | .atom "bool" => some .bool
  | .atom "string" => some .string
  | .list [.atom "arr", e, d] => do pure (.arr (← tyOf e) ((← d.nat?) = 1))
  | .list [.atom "obj", .list ps, m] => do
    let props ← ps.mapM fun p => match p with
      | .list [k, t] => do pure ((← k.str?), (← tyOf t))
      | _ => none
    let mapped ← match m with
      | .atom "N" => some none
      | t => (tyOf t).map some
    pure (.obj (props.foldl (fun acc kv => Ty.setProp kv.1 kv.2 acc) []) mapped)
  | _ => none

def strsOf : SExp → Option (List String)
  | .list l => l.mapM (·.str?)
  | _ => none

/-- env spec: `(vars, availCtx, availSpecial, configVars)`; vars = list of (name, ty) overriding the
built-in table; configVars = `N` or a list -/
def envOf : SExp → Option Env
  | .list [.list vs, ctx, sp, cv] => do
    let overrides ← vs.mapM fun p => match p with
      | .list [k, t] => do pure ((← k.str?), (← tyOf t))
      | _ => none
    let vars := overrides.foldl (fun acc kv => Ty.setProp kv.1 kv.2 acc) AL.Gen.globalVars
    let configVars ← match cv with
      | .atom "N" => some none
      | l => (strsOf l).map some
    pure { vars := vars, funcs := AL.Gen.funcSigs, specialFuncs := AL.Gen.specialFuncs,
           availCtx := (← strsOf ctx), availSpecial := (← strsOf sp), configVars := configVars,
           lower := lower, fromJson := AL.Json.fromJson lower }
  | _ => none

def errS (e : SemaErr) : String :=
  e.code ++ "(" ++ ",".intercalate (e.args.map hexStr) ++ ")"

/-- `sema <env> <exprhex>`: parse with the model's parser, check, run the untrusted-input machine -/
def handle : List String → String
  | [envS, hex] =>
    match readSExp envS >>= envOf, unhex hex with
    | some env, some bs =>
      match AL.Parse.parseToks (AL.Lex.tokens (decodeUtf8 bs)) with
      | .error _ => "syntax-error"
      | .ok pe =>
        let e := toE lower pe
        let r := check env e
        let reports := AL.Insecure.run AL.Gen.untrustedRoots r.evs
        s!"ty={hexStr (tyStr r.ty)};errs={"|".intercalate (r.errs.map errS)};untrusted={"|".intercalate (reports.map fun p => "/".intercalate (p.map hexStr))}"
    | _, _ => "bad-op"
  | _ => "bad-op"

mutual
/-- the harness's deep encoding of a type (`encTy` in go/corr/sema.go) -/
partial def encTy : Ty → String
  | .any => "any" | .null => "null" | .number => "number" | .bool => "bool" | .string => "string"
  | .arr e d => s!"(arr,{encTy e},{if d then 1 else 0})"
  | .obj ps m =>
    let m' := match m with | none => "N" | some t => encTy t
    s!"(obj,({",".intercalate (ps.map fun kv => s!"({hexStr kv.1},{encTy kv.2})")}),{m'})"
end

/-- `tyop merge|assign|str <t1> <t2>`: the operations of expr_type.go on two encoded types -/
def handleTyOp : List String → String
  | [op, a, b] =>
    match readSExp a >>= tyOf, readSExp b >>= tyOf with
    | some t1, some t2 =>
      match op with
      | "merge" => encTy (Ty.merge t1 t2)
      | "assign" => if Ty.assignable t1 t2 then "1" else "0"
      | "str" => hexStr (tyStr t1)
      | _ => "bad-op"
    | _, _ => "bad-op"
  | _ => "bad-op"

end Driver.SemaD
