import AL.Model.Glob
namespace Driver.Glob
open AL AL.Glob

def whatS : What → String
  | .none => "-" | .qmark => "q" | .plus => "p" | .classContent => "cc" | .classEnd => "ce"
  | .range => "cr" | .classMatch => "cm" | .neg => "neg"

def whyS : Why → String
  | .prec => "prec" | .empty => "empty" | .missing => "missing" | .noEnd => "noend"
  | .single => "single" | .newline => "nl" | .follow => "follow"
  | .badRange lo hi => s!"range:{lo}:{hi}"

def refWhyS : RefWhy → String
  | .chars => "chars" | .esc => "esc" | .endsWith => "end" | .startsWith => "start"

def chS : Option Nat → String
  | some r => toString r
  | none => "EOF"

def msgS : GMsg → String
  | .emptyPattern => "empty"
  | .scan .nul => "scan,nul"
  | .scan .utf8 => "scan,utf8"
  | .unexpected ch w y => s!"unexp,{chS ch},{whatS w},{whyS y}"
  | .invalidRef ch y => s!"ref,{(ch.getD 65533)},{refWhyS y}"   -- `%q` of rune -1 prints U+FFFD
  | .leadingSpace => "lead"
  | .trailingSpace => "trail"

def errsS (es : List GErr) : String :=
  if es.isEmpty then "ok" else ";".intercalate (es.map fun e => s!"{e.col},{msgS e.msg}")

def handle : List String → String
  | [mode, hex] =>
    match unhex hex with
    | none => "bad-op"
    | some bs =>
      let src := decodeUtf8 bs
      if mode = "ref" then errsS (validateRef src)
      else if mode = "path" then errsS (validatePath src)
      else "bad-op"
  | _ => "bad-op"

end Driver.Glob
