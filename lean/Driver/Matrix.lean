import AL.Model.Matrix
import Driver.Util
namespace Driver.Matrix
open AL.Matrix Driver

partial def rawOf : SExp → Option Raw
  | .list [.atom "s", h, l, c] => do pure (.str (← h.str?) ⟨← l.nat?, ← c.nat?⟩)
  | .list [.atom "a", l, c, .list es] => do pure (.arr (← es.mapM rawOf) ⟨← l.nat?, ← c.nat?⟩)
  | .list [.atom "o", l, c, .list ps] => do
    let props ← ps.mapM fun p => match p with
      | .list [k, v] => do pure ((← k.str?), (← rawOf v))
      | _ => none
    pure (.obj props ⟨← l.nat?, ← c.nat?⟩)
  | _ => none

def rowOf : SExp → Option Row
  | .list [h, .atom "E"] => do pure { id := (← h.str?), values := none }
  | .list [h, .atom "V", .list vs] => do pure { id := (← h.str?), values := some (← vs.mapM rawOf) }
  | _ => none

def comboOf : SExp → Option Combo
  | .atom "E" => some .expr
  | .list as => do
    let l ← as.mapM fun a => match a with
      | .list [h, l, c, v] => do pure ({ id := (← h.str?), keyPos := ⟨← l.nat?, ← c.nat?⟩, value := (← rawOf v) } : Assign)
      | _ => none
    pure (.assigns l)
  | _ => none

def combosOf : SExp → Option (Option Combos)
  | .atom "N" => some none
  | .atom "E" => some (some .expr)
  | .list [.atom "C", .list cs] => do pure (some (.list (← cs.mapM comboOf)))
  | _ => none

def matOf : SExp → Option Mat
  | .list [l, c, .list rows, inc, exc] => do
    pure { pos := ⟨← l.nat?, ← c.nat?⟩, rows := (← rows.mapM rowOf), incl := (← combosOf inc), excl := (← combosOf exc) }
  | _ => none

def diagS : Diag → String
  | .dup p r q => s!"dup,{p.line},{p.col},{hexStr r},{q.line},{q.col}"
  | .noVariation p => s!"novar,{p.line},{p.col}"
  | .unknownKey p k av => s!"exkey,{p.line},{p.col},{hexStr k},{"/".intercalate ((dedupSorted av).map hexStr)}"
  | .noMatch p k => s!"exval,{p.line},{p.col},{hexStr k}"

def boolS (b : Bool) : String := if b then "true" else "false"

/-- `matrix check <mat>` | `matrix equals <raw> <raw>` | `matrix subset <v> <sub>` -/
def handle : List String → String
  | ["check", m] =>
    match readSExp m >>= matOf with
    | none => "bad-op"
    | some mat =>
      let ds := ((check mat).map diagS).toArray.qsort (· < ·) |>.toList
      if ds.isEmpty then "ok" else "|".intercalate ds
  | ["equals", a, b] =>
    match readSExp a >>= rawOf, readSExp b >>= rawOf with
    | some x, some y => boolS (equals x y)
    | _, _ => "bad-op"
  | ["subset", a, b] =>
    match readSExp a >>= rawOf, readSExp b >>= rawOf with
    | some x, some y => boolS (subset x y)
    | _, _ => "bad-op"
  | _ => "bad-op"

end Driver.Matrix
