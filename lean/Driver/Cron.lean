import AL.Model.Cron
import Driver.Util
namespace Driver.CronD
open AL.Cron Driver

def ch (l : List Char) : String := hexStr (String.ofList l)

def errS : Err → String
  | .empty => "empty"
  | .badLocation z => s!"badloc {ch z}"
  | .noDescriptors s => s!"nodesc {ch s}"
  | .multipleOptionals => "multiple-optionals"
  | .fieldCountExact w f fs => s!"fields {w} {f} {ch ("[".toList ++ " ".toList.intercalate fs ++ "]".toList)}"
  | .fieldCountRange lo hi f fs => s!"fields-range {lo} {hi} {f} {ch ("[".toList ++ " ".toList.intercalate fs ++ "]".toList)}"
  | .unknownOptional => "unknown-optional"
  | .tooManyHyphens e => s!"hyphens {ch e}"
  | .tooManySlashes e => s!"slashes {ch e}"
  | .belowMin s m e => s!"belowmin {s} {m} {ch e}"
  | .aboveMax x m e => s!"abovemax {x} {m} {ch e}"
  | .beyondEnd s x e => s!"beyond {s} {x} {ch e}"
  | .zeroStep e => s!"zerostep {ch e}"
  | .parseInt e .syntax => s!"parseint syntax {ch e}"
  | .parseInt e .range => s!"parseint range {ch e}"
  | .negative n e => s!"negative {n} {ch e}"
  | .badDuration d => s!"badduration {ch d}"
  | .unrecognizedDescriptor d => s!"unrecognized {ch d}"
  | .slicePanic => "panic"

def masksS (sc : Sched) : String := s!"{sc.second} {sc.minute} {sc.hour} {sc.dom} {sc.month} {sc.dow}"

def outcomeS : Except Err Sched → String
  | .error .slicePanic => "panic"
  | .error e => s!"error {errS e}"
  | .ok sc => s!"parsed {masksS sc}"

def verdictS : Verdict → String
  | .diags [.noScheduleAfterZone _] => "guard"
  | .diags [.invalidFormat _ .slicePanic] => "panic"
  | .diags [.invalidFormat _ e] => s!"error {errS e}"
  | .diags [.tooFrequent ns] => s!"frequent {ns}"
  | .diags [] => "fine"
  | .diags _ => "bad-verdict"
  | .outOfScope _ => "zone"

/-- `cron <spechex> <zk>`: the outcome of `checkCron` — `guard` | `error <class> <args>` | `ok <six masks> <gap in ns>` |
`ok-frequent <six masks> <gap in ns>` | `zone <six masks>`; `<zk>` = 1 when `time.LoadLocation` knows the zone the spec names.
`cron raw <spechex> <zk>`: the outcome of `Parser.Parse` alone — `panic` | `error …` | `parsed <six masks>`. -/
def handle : List String → String
  | ["raw", h, zk] =>
    match unhexStr h with
    | none => "bad-op"
    | some spec => outcomeS (parse (fun _ => zk = "1") spec)
  | [h, zk] =>
    match unhexStr h with
    | none => "bad-op"
    | some spec =>
      let known : List Char → Bool := fun _ => zk = "1"
      match checkCron known spec with
      | .diags [.noScheduleAfterZone _] => "guard"
      | .outOfScope sc => s!"zone {masksS sc}"
      | v =>
        match parse known spec with
        | .ok sc =>
          (match v with
           | .diags [.tooFrequent ns] => s!"ok-frequent {masksS sc} {ns}"
           | .diags [] => s!"ok {masksS sc} {gapNanos sc}"
           | _ => "bad-verdict")
        | .error _ => verdictS v
  | _ => "bad-op"

end Driver.CronD
