import AL.Model.Calls
import AL.Model.CallType
import Driver.Util
namespace Driver.CallsD
open AL.Calls Driver

def declOf : SExp → Option Decl
  | .list [i, n, r] => do pure { id := (← i.str?), name := (← n.str?), required := (← r.nat?) = 1 }
  | _ => none

def strs : SExp → Option (List String)
  | .list l => l.mapM (·.str?)
  | _ => none

def diagS : Diag → String
  | .undefinedInput i => s!"ui:{hexStr i}"
  | .missingInput n => s!"mi:{hexStr n}"
  | .undefinedSecret i => s!"us:{hexStr i}"
  | .missingSecret n => s!"ms:{hexStr n}"

def out (ds : List Diag) : String :=
  let l := dedupSorted (ds.map diagS)
  s!"{ds.length}|{",".intercalate l}"

/-- `calls action (decl…) (supplied…)` | `calls workflow (inputs…) (secrets…) (with…) (secretIds…) inherit01` -/
def handle : List String → String
  | ["action", d, s] =>
    match readSExp d, readSExp s with
    | some (.list ds), some se =>
      match ds.mapM declOf, strs se with
      | some decls, some sup => out (checkAction decls sup)
      | _, _ => "bad-op"
    | _, _ => "bad-op"
  | ["workflow", i, s, w, x, inh] =>
    match readSExp i, readSExp s, readSExp w, readSExp x with
    | some (.list is), some (.list ss), some we, some xe =>
      match is.mapM declOf, ss.mapM declOf, strs we, strs xe with
      | some ins, some secs, some wi, some si => out (checkCall ins secs wi si (inh = "1"))
      | _, _, _, _ => "bad-op"
    | _, _, _, _ => "bad-op"
  | _ => "bad-op"

/-- `calltype <decl: string|number|bool|any> <shape: null|bool|number|other|embedded|several|whole:<ty>>` → 0/1 -/
def handleCallType : List String → String
  | [d, sh] =>
    let tyOfS : String → Option AL.Ty := fun s => match s with
      | "string" => some .string | "number" => some .number | "bool" => some .bool | "any" => some .any | "null" => some .null
      | _ => none
    let shape : Option AL.CallType.Shape := match sh with
      | "null" => some (.literal .null) | "bool" => some (.literal .bool) | "number" => some (.literal .number)
      | "other" => some (.literal .other) | "embedded" => some .embedded | "several" => some .several
      | s => if s.startsWith "whole:" then (tyOfS (s.drop 6).toString).map .whole else none
    match tyOfS d, shape with
    | some dt, some s => if AL.CallType.reported dt s then "1" else "0"
    | _, _ => "bad-op"
  | _ => "bad-op"

end Driver.CallsD
