import AL.Model.Visit
import AL.Model.ExprConv
import Driver.Sema
namespace Driver.VisitD
open AL AL.Visit AL.Sema Driver Driver.SemaD

/-- an expression source (hex, ending in `}}`) parsed by the model's lexer and parser -/
def exprOf (h : SExp) : Option E := do
  let bs ← h.atom? >>= AL.unhex
  match AL.Parse.parseToks (AL.Lex.tokens (decodeUtf8 bs)) with
  | .error _ => none
  | .ok pe => some (toE lower pe)

partial def rawOf : SExp → Option RawV
  | .atom "b" => some .bool
  | .atom "n" => some .null
  | .atom "num" => some .number
  | .atom "s" => some .string
  | .list [.atom "e", h] => (exprOf h).map .expr
  | .list (.atom "arr" :: es) => (es.mapM rawOf).map .arr
  | .list (.atom "obj" :: ps) =>
    (ps.mapM fun (p : SExp) => match p with
      | SExp.list [k, v] => do pure ((← k.str?), (← rawOf v))
      | _ => none).map .obj
  | _ => none

def kvs {α} (f : SExp → Option α) (l : List SExp) : Option (List (String × α)) :=
  l.mapM fun (p : SExp) => match p with
    | SExp.list [k, v] => do pure ((← k.str?), (← f v))
    | _ => none

def rowOf : SExp → Option RowM
  | .list (.atom "vals" :: vs) => (vs.mapM rawOf).map .values
  | .list [.atom "expr", h] => (exprOf h).map .expr
  | _ => none

def comboOf : SExp → Option ComboM
  | .list (.atom "assigns" :: ps) => (kvs rawOf ps).map .assigns
  | .list [.atom "expr", h] => (exprOf h).map .expr
  | _ => none

def incOf : SExp → Option IncM
  | .atom "N" => some .none
  | .list [.atom "expr", h] => (exprOf h).map .expr
  | .list (.atom "combos" :: cs) => (cs.mapM comboOf).map .combos
  | _ => none

def matrixOf : SExp → Option (Option MatrixM)
  | .atom "N" => some none
  | .list [.atom "expr", h] => (exprOf h).map fun e => some (.expr e)
  | .list [.atom "lit", .list rows, inc] => do
    let rs ← kvs rowOf rows
    let i ← incOf inc
    pure (some (.lit rs i))
  | .list [.atom "lit", .atom "E", inc] => do
    let i ← incOf inc
    pure (some (.lit [] i))
  | _ => none

def kindOf : SExp → Option PKind
  | .atom "s" => some .str
  | .atom "x" => some .script
  | .atom "b" => some .bool
  | .atom "c" => some .cond
  | .list [.atom "n", w] => w.str?.map .number
  | _ => none

def probeOf : SExp → Option Probe
  | .list [t, k, h] => do pure { tag := (← t.nat?), key := (← k.str?), e := (← exprOf h) }
  | .list [t, k, h, kd] => do pure { tag := (← t.nat?), key := (← k.str?), e := (← exprOf h), kind := (← kindOf kd) }
  | _ => none

def listOf {α} (f : SExp → Option α) : SExp → Option (List α)
  | .atom "E" => some []
  | .list l => l.mapM f
  | _ => none

def stepOf : SExp → Option StepM
  | .list [id, ie, out, ps] => do
    let id' ← match id with
      | .atom "N" => some none
      | x => x.str?.map some
    pure { id := id', idExpr := (← ie.nat?) = 1, outputs := (← tyOf out), probes := (← listOf probeOf ps) }
  | _ => none

def jobOf : SExp → Option JobM
  | .list [id, needs, outs, call, mx, pre, steps, post] => do
    let call' ← match call with
      | .atom "N" => some none
      | t => (tyOf t).map some
    pure { id := (← id.str?), needs := (← listOf SExp.str? needs), outputs := (← listOf SExp.str? outs), call := call',
           matrix := (← matrixOf mx), pre := (← listOf probeOf pre), steps := (← listOf stepOf steps), post := (← listOf probeOf post) }
  | _ => none

def optInputs : SExp → Option (Option (List (String × Ty)))
  | .atom "N" => some none
  | x => (listOf (fun (p : SExp) => match p with
      | SExp.list [k, t] => do pure ((← k.str?), (← tyOf t))
      | _ => none) x).map some

def hdrOf : SExp → Option Header
  | .list [d, c, s] => do
    let secs ← match s with
      | .atom "N" => some none
      | x => (listOf SExp.str? x).map some
    pure { dispatchInputs := (← optInputs d), callInputs := (← optInputs c), callSecrets := secs }
  | _ => none

def eventOf : SExp → Option Event
  | .atom "o" => some .other
  | .list [.atom "d", ins] => do
    let is ← listOf (fun (p : SExp) => match p with
      | SExp.list [i, t, ps] => do pure ({ id := (← i.str?), ty := (← tyOf t), probes := (← listOf probeOf ps) } : DispatchInput)
      | _ => none) ins
    pure (.dispatch is)
  | .list [.atom "c", ins, secs] => do
    let is ← listOf (fun (p : SExp) => match p with
      | SExp.list [i, t, d] => do
        let d' ← match d with
          | .atom "N" => some none
          | x => (probeOf x).map some
        pure ({ id := (← i.str?), ty := (← tyOf t), dflt := d' } : CallInput)
      | _ => none) ins
    let ss ← match secs with
      | .atom "N" => some none
      | x => (listOf SExp.str? x).map some
    pure (.call is ss)
  | _ => none

def showOut (out : Out) : String :=
  let sorted := out.toArray.qsort (fun a b => a.1 < b.1) |>.toList
  ";".intercalate (sorted.map fun (t, errs) =>
    s!"{t}={"|".intercalate ((errs.map errS).toArray.qsort (· < ·) |>.toList)}")

/-- `visitsrc <workflow>`: (events, top-level probes, jobs, call-output probes) -/
def handleSrc : List String → String
  | [w] =>
    match readSExp w with
    | some (.list [evs, top, js, cos]) =>
      match listOf eventOf evs, listOf probeOf top, listOf jobOf js, listOf probeOf cos with
      | some events, some tops, some jobs, some couts => showOut (runSource lower events tops jobs jobs couts)
      | _, _, _, _ => "bad-op"
    | _ => "bad-op"
  | _ => "bad-op"

/-- `visit <workflow>`: (header, jobs, call-output probes) → `tag=code|code;…` for every probe, by tag -/
def handle : List String → String
  | [w] =>
    match readSExp w with
    | some (.list [h, js, cos]) =>
      match hdrOf h, listOf jobOf js, listOf probeOf cos with
      | some hdr, some jobs, some couts =>
        let out := runWorkflow lower hdr jobs jobs couts
        let sorted := out.toArray.qsort (fun a b => a.1 < b.1) |>.toList
        ";".intercalate (sorted.map fun (t, errs) =>
          s!"{t}={"|".intercalate ((errs.map errS).toArray.qsort (· < ·) |>.toList)}")
      | _, _, _ => "bad-op"
    | _ => "bad-op"
  | _ => "bad-op"

end Driver.VisitD
