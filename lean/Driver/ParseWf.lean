import AL.Model.ParseWf
import AL.Model.Rules
import AL.Model.RuleExpr
import AL.Model.CallMeta
import AL.Model.ProjCall
import AL.Model.ProjLint
import AL.Model.ActionDecode
import AL.Model.ConfigDecode
import Driver.Util
import AL.Model.Ignore
import AL.Lemmas.C20DBase
import AL.Model.ProjRun
/-
  `parsewf <numbers> <node>`: the document node as an S-expression
      (k,tag,value,q,line,col,(children…))     k ∈ d s m c a   (document sequence mapping sCalar alias)
  `<numbers>`: what strconv says about the scalar values that may be read as numbers: ((value,int,float),…)
      int: `e` (Atoi fails) or the decimal value; float: e (error) n (NaN) p (> 0) z (≤ 0)
  Answer: `<diagnostics>|<AST dump>`; the harness prints the real AST in the same notation.
-/
namespace Driver.ParseWfD
open AL.Yaml AL.Ast AL.PW Driver

partial def nodeOf : SExp → Option Node
  | .list [k, tag, value, q, line, col, cs] => do
    let kind ← match k.atom? with
      | some "d" => some Kind.document | some "s" => some .sequence | some "m" => some .mapping
      | some "c" => some .scalar | some "a" => some .alias | _ => none
    let children ← match cs with
      | .list l => l.mapM nodeOf
      | .atom "E" => some []
      | _ => none
    pure (.mk kind (← tag.str?) (← value.str?) ((← q.atom?) = "1") (← line.nat?) (← col.nat?) children)
  | _ => none

structure Num where
  value : String
  int : Option Int
  float : FloatRes

def numOf : SExp → Option Num
  | .list [v, i, f] => do
    let fr ← match f.atom? with
      | some "e" => some FloatRes.err | some "n" => some .nan | some "p" => some (.val true) | some "z" => some (.val false)
      | _ => none
    let iv : Option Int ← match i.atom? with
      | some "e" => some none
      | some s => (s.toInt?).map some
      | none => none
    pure ⟨← v.str?, iv, fr⟩
  | _ => none

def cfgOf (nums : List Num) : Cfg :=
  { lower := Driver.lower
    atoi := fun s => match nums.find? (·.value = s) with | some n => n.int | none => none
    parseFloat := fun s => match nums.find? (·.value = s) with | some n => n.float | none => .err }

/-! ### dump -/

def posS (p : Pos) : String := s!"{p.line}:{p.col}"
def optS {α} (f : α → String) : Option α → String
  | none => "_"
  | some a => f a
def listS {α} (f : α → String) (l : List α) : String := "[" ++ ";".intercalate (l.map f) ++ "]"
def b01 (b : Bool) : String := if b then "1" else "0"
def strS (s : Str) : String := s!"s({hexStr s.value},{b01 s.quoted},{posS s.pos})"
def boolS (b : BoolV) : String := s!"b({b01 b.value},{optS strS b.expr},{posS b.pos})"
def intS (i : IntV) : String := s!"i({i.value},{optS strS i.expr},{posS i.pos})"
def floatS (f : FloatV) : String := s!"f({if f.positive then "p" else "n"},{optS strS f.expr},{posS f.pos})"

def insertKV {β} (kv : String × β) : List (String × β) → List (String × β)
  | [] => [kv]
  | x :: rest => if kv.1 < x.1 then kv :: x :: rest else x :: insertKV kv rest
def mapS {β} (f : β → String) (m : List (String × β)) : String :=
  "{" ++ ";".intercalate ((m.foldr insertKV []).map fun kv => hexStr kv.1 ++ "=" ++ f kv.2) ++ "}"

partial def rawS : Raw → String
  | .str v p => s!"rs({hexStr v},{posS ⟨p.line, p.col⟩})"
  | .arr es p => s!"ra({listS rawS es},{posS ⟨p.line, p.col⟩})"
  | .obj ps p => s!"ro({mapS rawS ps},{posS ⟨p.line, p.col⟩})"

def filterS (f : Filter) : String := s!"WebhookEventFilter({strS f.name},{optS (listS strS) f.values})"

def dispatchTypeS : DispatchInputType → String
  | .none => "0" | .string => "1" | .number => "2" | .boolean => "3" | .choice => "4" | .environment => "5"
def callTypeS : CallInputType → String
  | .invalid => "0" | .boolean => "1" | .number => "2" | .string => "3"

def dispatchInputS (i : DispatchInput) : String :=
  s!"DispatchInput({strS i.name},{optS strS i.description},{optS boolS i.required},{optS strS i.dflt},{dispatchTypeS i.type},{optS (listS strS) i.options})"
def callInputS (i : CallInput) : String :=
  s!"WorkflowCallEventInput({strS i.name},{optS strS i.description},{optS strS i.dflt},{optS boolS i.required},{callTypeS i.type},{hexStr i.id})"
def callSecretS (i : CallSecret) : String :=
  s!"WorkflowCallEventSecret({strS i.name},{optS strS i.description},{optS boolS i.required})"
def callOutputS (i : CallOutput) : String :=
  s!"WorkflowCallEventOutput({strS i.name},{optS strS i.description},{optS strS i.value})"

def eventS : Event → String
  | .webhook e =>
    s!"WebhookEvent({strS e.hook},{optS (listS strS) e.types},{optS filterS e.branches},{optS filterS e.branchesIgnore},{optS filterS e.tags},{optS filterS e.tagsIgnore},{optS filterS e.paths},{optS filterS e.pathsIgnore},{optS (listS strS) e.workflows},{posS e.pos})"
  | .schedule cron pos => s!"ScheduledEvent({listS strS cron},{posS pos})"
  | .dispatch inputs pos => s!"WorkflowDispatchEvent({optS (mapS dispatchInputS) inputs},{posS pos})"
  | .repoDispatch types pos => s!"RepositoryDispatchEvent({optS (listS strS) types},{posS pos})"
  | .call inputs secrets outputs pos =>
    s!"WorkflowCallEvent({optS (listS callInputS) inputs},{optS (mapS callSecretS) secrets},{optS (mapS callOutputS) outputs},{posS pos})"

def permissionsS (p : Permissions) : String :=
  s!"Permissions({optS strS p.all},{optS (mapS fun (s : PermissionScope) => s!"PermissionScope({strS s.name},{strS s.value})") p.scopes},{posS p.pos})"
def defaultsS (d : Defaults) : String :=
  s!"Defaults({optS (fun (r : DefaultsRun) => s!"DefaultsRun({optS strS r.shell},{optS strS r.workingDirectory},{posS r.pos})") d.run},{posS d.pos})"
def concurrencyS (c : Concurrency) : String :=
  s!"Concurrency({optS strS c.group},{optS boolS c.cancelInProgress},{posS c.pos})"
def environmentS (e : Environment) : String := s!"Environment({optS strS e.name},{optS strS e.url},{posS e.pos})"
def envS (e : Env) : String :=
  s!"Env({optS (mapS fun (v : EnvVar) => s!"EnvVar({strS v.name},{strS v.value})") e.vars},{optS strS e.expr})"

def execS : Exec → String
  | .none => "_"
  | .run e => s!"ExecRun({optS strS e.run},{optS strS e.shell},{optS strS e.workingDirectory},{optS posS e.runPos})"
  | .action e =>
    s!"ExecAction({optS strS e.uses},{optS (mapS fun (i : Input) => s!"Input({strS i.name},{strS i.value})") e.inputs},{optS strS e.entrypoint},{optS strS e.args})"

def combosS (c : MatrixCombinations) : String :=
  let combo (x : MatrixCombination) : String :=
    s!"MatrixCombination({optS (mapS fun (a : MatrixAssign) => s!"MatrixAssign({strS a.key},{rawS a.value})") x.assigns},{optS strS x.expr})"
  s!"MatrixCombinations({optS (listS combo) c.combinations},{optS strS c.expr})"

def matrixS (m : Matrix) : String :=
  let row (r : MatrixRow) : String := s!"MatrixRow({optS strS r.name},{optS (listS rawS) r.values},{optS strS r.expr})"
  s!"Matrix({optS (mapS row) m.rows},{optS combosS m.incl},{optS combosS m.excl},{optS strS m.expr},{posS m.pos})"

def strategyS (s : Strategy) : String :=
  s!"Strategy({optS matrixS s.matrix},{optS boolS s.failFast},{optS intS s.maxParallel},{posS s.pos})"

def stepS (s : Step) : String :=
  s!"Step({optS strS s.id},{optS strS s.cond},{optS strS s.name},{execS s.exec},{optS envS s.env},{optS boolS s.continueOnError},{optS floatS s.timeoutMinutes},{posS s.pos})"

def containerS (c : Container) : String :=
  let cred (x : Credentials) : String := s!"Credentials({optS strS x.username},{optS strS x.password},{posS x.pos})"
  s!"Container({optS strS c.image},{optS cred c.credentials},{optS envS c.env},{optS (listS strS) c.ports},{optS (listS strS) c.volumes},{optS strS c.options},{posS c.pos})"

def servicesS (s : Services) : String :=
  s!"Services({optS (mapS fun (x : Service) => s!"Service({strS x.name},{containerS x.container})") s.value},{optS strS s.expr},{posS s.pos})"

def runnerS (r : Runner) : String := s!"Runner({optS (listS strS) r.labels},{optS strS r.labelsExpr},{optS strS r.group})"

def callS (c : WorkflowCall) : String :=
  s!"WorkflowCall({optS strS c.uses},{optS (mapS fun (a : CallArg) => s!"WorkflowCallInput({strS a.name},{strS a.value})") c.inputs},{optS (mapS fun (a : CallArg) => s!"WorkflowCallSecret({strS a.name},{strS a.value})") c.secrets},{b01 c.inheritSecrets})"

def jobS (j : Job) : String :=
  s!"Job({strS j.id},{optS strS j.name},{optS (listS strS) j.needs},{optS runnerS j.runsOn},{optS permissionsS j.permissions},{optS environmentS j.environment},{optS concurrencyS j.concurrency},{optS (mapS fun (o : Output) => s!"Output({strS o.name},{strS o.value})") j.outputs},{optS envS j.env},{optS defaultsS j.defaults},{optS strS j.cond},{optS (listS stepS) j.steps},{optS floatS j.timeoutMinutes},{optS strategyS j.strategy},{optS boolS j.continueOnError},{optS containerS j.container},{optS servicesS j.services},{optS callS j.workflowCall},{posS j.pos})"

def workflowS (w : Workflow) : String :=
  s!"Workflow({optS strS w.name},{optS strS w.runName},{optS (listS eventS) w.on},{optS permissionsS w.permissions},{optS envS w.env},{optS defaultsS w.defaults},{optS concurrencyS w.concurrency},{optS (mapS jobS) w.jobs})"

def errS (e : PErr) : String :=
  s!"{e.pos.line}:{e.pos.col}:{e.code}:{",".intercalate (e.args.map hexStr)}"

def handle : List String → String
  | [nums, node] =>
    let ns : Option (List Num) := match readSExp nums with
      | some (.atom "E") => some []
      | some (.list l) => l.mapM numOf
      | _ => none
    match ns, (readSExp node) >>= nodeOf with
    | some ns, some n =>
      let r := parse (cfgOf ns) n
      ";".intercalate (r.2.map errS) ++ "|" ++ workflowS r.1
    | _, _ => "bad-op"
  | _ => "bad-op"

end Driver.ParseWfD

namespace Driver.ParseWfD
open AL.Yaml AL.Ast AL.PW Driver

def diagS (d : AL.Rules.Diag) : String :=
  s!"{d.pos.line}:{d.pos.col}:{d.kind}:{d.code}:{",".intercalate (d.args.map hexStr)}"

/-- the known zone names `(hex,…)` / `E` as the `zoneKnown` of the rules' configuration -/
def zonesOf (zones : String) : Option (List String) :=
  match readSExp zones with
  | some (.atom "E") => some []
  | some (.list l) => l.mapM SExp.str?
  | _ => none

/-- the diagnostics, followed by one pseudo entry `line:col:events:cron-unmodelled:` per `schedule` entry whose interval the
model does not judge (a zone other than UTC): the other side leaves the `too frequent` diagnostic of these entries out -/
def lintAnswer (ds : List AL.Rules.Diag) (skip : List AL.Rules.Pos) : String :=
  ";".intercalate (ds.map diagS ++ skip.map fun p => s!"{p.line}:{p.col}:events:cron-unmodelled:")

def lintWith (nums urls zones node : String) : String :=
    let ns : Option (List Num) := match readSExp nums with
      | some (.atom "E") => some []
      | some (.list l) => l.mapM numOf
      | _ => none
    let bad : Option (List String) := match readSExp urls with
      | some (.list l) => l.mapM SExp.str?
      | _ => none
    match ns, bad, zonesOf zones, (readSExp node) >>= nodeOf with
    | some ns, some bad, some zs, some n =>
      let isNum : String → Bool := fun s => match ns.find? (·.value = s) with
        | some x => (match x.float with | .err => false | _ => true)
        | none => false
      let lc : AL.Rules.LabelCfg := { zoneKnown := fun z => zs.contains (String.ofList z) }
      lintAnswer (AL.Rules.lint (cfgOf ns) isNum (fun u => !bad.contains u) n lc) (AL.Rules.cronUnmodelled (parse (cfgOf ns) n).1 lc)
    | _, _, _, _ => "bad-op"

/-- `lintwf <numbers> <bad urls> [<zones>] <node>`: the parser and the AST-only rules, sorted as `Linter.check` sorts;
`<bad urls>`: the Docker URIs `url.Parse` rejects; `<zones>`: the zone names (of the CRON specs of the document) that
`time.LoadLocation` knows, none when left out -/
def handleLint : List String → String
  | [nums, urls, node] => lintWith nums urls "E" node
  | [nums, urls, zones, node] => lintWith nums urls zones node
  | _ => "bad-op"

end Driver.ParseWfD

namespace Driver.ParseWfD
open AL.Yaml AL.Ast AL.PW Driver

def insertStr (s : String) : List String → List String
  | [] => [s]
  | x :: rest => if s < x then s :: x :: rest else x :: insertStr s rest

/-- `exprwf <numbers> <node>`: rule_expression.go over the parser model's AST; the sorted multiset of classified diagnostics -/
def handleExpr : List String → String
  | [nums, node] =>
    let ns : Option (List Num) := match readSExp nums with
      | some (.atom "E") => some []
      | some (.list l) => l.mapM numOf
      | _ => none
    match ns, (readSExp node) >>= nodeOf with
    | some ns, some n =>
      let cfg := cfgOf ns
      let isNum : String → Bool := fun s => match ns.find? (·.value = s) with
        | some x => (match x.float with | .err => false | _ => true)
        | none => false
      let ds := AL.RuleExpr.rule cfg.lower isNum (parse cfg n).1
      -- `lineBreakEscaper` (error.go) is applied to every message: compare after the same escaping
      let esc (a : String) : String := (a.replace "\n" "\\n").replace "\r" "\\r"
      let codes := ds.map fun d => d.code ++ "(" ++ ",".intercalate (d.args.map fun a => hexStr (esc a)) ++ ")"
      ";".intercalate (codes.foldr insertStr [])
    | _, _ => "bad-op"
  | _ => "bad-op"

end Driver.ParseWfD

namespace Driver.ParseWfD
open AL.Yaml AL.Ast AL.PW Driver

def tyS : AL.CallMeta.Ty → String
  | .any => "any" | .bool => "bool" | .number => "number" | .string => "string"

/-- canonical form of an interface: the three maps sorted by key -/
def metaS (m : AL.CallMeta.Meta) : String :=
  "in" ++ mapS (fun (i : AL.CallMeta.Input) => s!"{hexStr i.name},{b01 i.required},{tyS i.ty}") m.inputs ++
  "sec" ++ mapS (fun (s : AL.CallMeta.Secret) => s!"{hexStr s.name},{b01 s.required}") m.secrets ++
  "out" ++ mapS (fun (o : String) => hexStr o) m.outputs

/-- `callmeta <node>`: the interface of a reusable workflow from the document node, both ways.
Answer: `file=<interface|error|notfound|unsupported> ast=<interface|none> diags=<number of parser diagnostics>
hyp=<1|0|na>` (hyp: the hypotheses of AL.Props.C10Meta.document_interface_agrees_checked hold for the document; na: no `on: workflow_call:` mapping) -/
def handleCallMeta : List String → String
  | [node] =>
    match (readSExp node) >>= nodeOf with
    | some n =>
      let cfg := cfgOf []
      let f := match AL.CallMeta.fromDoc cfg n with
        | .ok m => metaS m
        | .error .decode => "error"
        | .error .notFound => "notfound"
        | .error .unsupported => "unsupported"
      let a := match AL.CallMeta.fromDocAst cfg n with
        | some m => metaS m
        | none => "none"
      let hyp := match AL.CallMeta.callNode n with
        | some _ => if AL.CallMeta.docHypB cfg n then "1" else "0"
        | none => "na"
      s!"file={f} ast={a} diags={(parse cfg n).2.length} hyp={hyp}"
    | none => "bad-op"
  | _ => "bad-op"

end Driver.ParseWfD

namespace Driver.ParseWfD
open AL.Yaml AL.Ast AL.PW Driver

/-! ### the project case: `lintwfp`, `exprwfp` -/

def listOf (e : SExp) : Option (List SExp) :=
  match e with
  | .atom "E" => some []
  | .list l => some l
  | _ => none

def tyOfAtom : String → Option AL.CallMeta.Ty
  | "any" => some .any | "bool" => some .bool | "number" => some .number | "string" => some .string | _ => none

def metaOf : SExp → Option AL.CallMeta.Meta
  | .list [ins, secs, outs] => do
    let i ← (← listOf ins).mapM fun e => match e with
      | .list [id, name, req, ty] => do
        pure ((← id.str?), (⟨← name.str?, (← req.atom?) = "1", ← tyOfAtom (← ty.atom?)⟩ : AL.CallMeta.Input))
      | _ => none
    let s ← (← listOf secs).mapM fun e => match e with
      | .list [id, name, req] => do pure ((← id.str?), (⟨← name.str?, (← req.atom?) = "1"⟩ : AL.CallMeta.Secret))
      | _ => none
    let o ← (← listOf outs).mapM fun e => match e with
      | .list [id, name] => do pure ((← id.str?), (← name.str?))
      | _ => none
    pure { inputs := i, secrets := s, outputs := o }
  | _ => none

def b1 (e : SExp) : Option Bool := (e.atom?).map (· = "1")

def actionMetaOf : SExp → Option AL.ProjAction.ActionMeta
  | .list [name, desc, icon, iconKnown, color, colorKnown,
           .list [using_, main, pre, preIf, post, postIf, image, preEp, ep, postEp, stepsNil, stepsNonEmpty, argsNil, envNil],
           ins, outs, dir, path] => do
    let i ← (← listOf ins).mapM fun e => match e with
      | .list [id, nm, req] => do pure ((← id.str?), (← nm.str?), (← b1 req))
      | _ => none
    let o ← (← listOf outs).mapM fun e => match e with
      | .list [id, nm] => do pure ((← id.str?), (← nm.str?))
      | _ => none
    pure { name := ← name.str?, description := ← desc.str?, icon := ← icon.str?, iconKnown := ← b1 iconKnown,
           color := ← color.str?, colorKnown := ← b1 colorKnown,
           runs := { using_ := ← using_.str?, main := ← main.str?, pre := ← pre.str?, preIf := ← preIf.str?, post := ← post.str?,
                     postIf := ← postIf.str?, image := ← image.str?, preEntrypoint := ← preEp.str?, entrypoint := ← ep.str?,
                     postEntrypoint := ← postEp.str?, stepsNil := ← b1 stepsNil, stepsNonEmpty := ← b1 stepsNonEmpty,
                     argsNil := ← b1 argsNil, envNil := ← b1 envNil },
           inputs := i, outputs := o, dir := ← dir.str?, path := ← path.str? }
  | _ => none

/-- `(hasProject, ((spec, a | (b,dir) | <metadata>) …), ((dir,file) … that do not exist), ((image,base) …))` -/
def actionEnvOf : SExp → Option AL.ProjAction.Env
  | .list [hp, specs, missing, bases] => do
    let table ← (← listOf specs).mapM fun e => match e with
      | .list [spec, .atom "a"] => do pure ((← spec.str?), AL.ProjAction.OnDisk.absent)
      | .list [spec, .list [.atom "b", dir]] => do pure ((← spec.str?), AL.ProjAction.OnDisk.broken (← dir.str?))
      | .list [spec, m] => do pure ((← spec.str?), AL.ProjAction.OnDisk.ok (← actionMetaOf m))
      | _ => none
    let miss ← (← listOf missing).mapM fun e => match e with
      | .list [d, f] => do pure ((← d.str?), (← f.str?))
      | _ => none
    let bs ← (← listOf bases).mapM fun e => match e with
      | .list [f, b] => do pure ((← f.str?), (← b.str?))
      | _ => none
    pure { hasProject := (← hp.atom?) = "1"
           disk := fun spec => match table.find? (·.1 = spec) with | some e => e.2 | none => .absent
           fileExists := fun d f => !(miss.any fun e => e.1 = d && e.2 = f)
           baseName := fun f => match bs.find? (·.1 = f) with | some e => e.2 | none => f }
  | _ => none

/-- `(hasProject, self, ((spec, m | b | <interface>) …))` -/
def envOf : SExp → Option AL.ProjCall.Env
  | .list [hp, self, specs] => do
    let selfSpec : Option String ← match self with
      | .atom "N" => some none
      | e => (e.str?).map some
    let table ← (← listOf specs).mapM fun e => match e with
      | .list [spec, .atom "m"] => do pure ((← spec.str?), AL.ProjCall.OnDisk.missing)
      | .list [spec, .atom "b"] => do pure ((← spec.str?), AL.ProjCall.OnDisk.broken)
      | .list [spec, m] => do pure ((← spec.str?), AL.ProjCall.OnDisk.ok (← metaOf m))
      | _ => none
    pure { hasProject := (← hp.atom?) = "1", self := selfSpec
           disk := fun spec => match table.find? (·.1 = spec) with
             | some e => e.2
             | none => .missing }
  | _ => none

/-- `(labels, vars | N, ((pattern, label) … that match), ((pattern, label) … on which `path.Match` reports a malformed pattern))` -/
def configEnvOf : SExp → Option (AL.Rules.LabelCfg × Option (List String))
  | .list [labels, vars, matched, bad] => do
    let ls ← (← listOf labels).mapM SExp.str?
    let vs : Option (List String) ← match vars with
      | .atom "N" => some none
      | e => do pure (some (← (← listOf e).mapM SExp.str?))
    let ms ← (← listOf matched).mapM fun e => match e with
      | .list [p, l] => do pure ((← p.str?), (← l.str?))
      | _ => none
    let bs ← (← listOf bad).mapM fun e => match e with
      | .list [p, l] => do pure ((← p.str?), (← l.str?))
      | _ => none
    pure ({ known := ls, pmatch := fun p l => if bs.any (fun e => e.1 = p && e.2 = l) then none else some (ms.any fun e => e.1 = p && e.2 = l) }, vs)
  | _ => none

/-- `lintwfp <numbers> <bad urls> [<zones>] <env> <action env> <config env> <node>`: `lintwf` for a file linted inside a project -/
def lintPWith (nums urls zones env aenv cenv node : String) : String :=
    let ns : Option (List Num) := match readSExp nums with
      | some (.atom "E") => some []
      | some (.list l) => l.mapM numOf
      | _ => none
    let bad : Option (List String) := match readSExp urls with
      | some (.list l) => l.mapM SExp.str?
      | _ => none
    match ns, bad, zonesOf zones, (readSExp env) >>= envOf, (readSExp aenv) >>= actionEnvOf, (readSExp cenv) >>= configEnvOf, (readSExp node) >>= nodeOf with
    | some ns, some bad, some zs, some env, some aenv, some cenv, some n =>
      let isNum : String → Bool := fun s => match ns.find? (·.value = s) with
        | some x => (match x.float with | .err => false | _ => true)
        | none => false
      let lc : AL.Rules.LabelCfg := { cenv.1 with zoneKnown := fun z => zs.contains (String.ofList z) }
      lintAnswer (AL.ProjLint.lint (cfgOf ns) isNum (fun u => !bad.contains u) { calls := env, actions := aenv, labels := lc, configVars := cenv.2 } n)
        (AL.Rules.cronUnmodelled (parse (cfgOf ns) n).1 lc)
    | _, _, _, _, _, _, _ => "bad-op"

def handleLintP : List String → String
  | [nums, urls, env, aenv, cenv, node] => lintPWith nums urls "E" env aenv cenv node
  | [nums, urls, zones, env, aenv, cenv, node] => lintPWith nums urls zones env aenv cenv node
  | _ => "bad-op"

/-- `exprwfp <numbers> <env> <action env> <config env> <node>`: `exprwf` for a file linted inside a project -/
def handleExprP : List String → String
  | [nums, env, aenv, cenv, node] =>
    let ns : Option (List Num) := match readSExp nums with
      | some (.atom "E") => some []
      | some (.list l) => l.mapM numOf
      | _ => none
    match ns, (readSExp env) >>= envOf, (readSExp aenv) >>= actionEnvOf, (readSExp cenv) >>= configEnvOf, (readSExp node) >>= nodeOf with
    | some ns, some env, some aenv, some cenv, some n =>
      let cfg := cfgOf ns
      let isNum : String → Bool := fun s => match ns.find? (·.value = s) with
        | some x => (match x.float with | .err => false | _ => true)
        | none => false
      let ds := AL.ProjLint.exprRule { calls := env, actions := aenv, labels := cenv.1, configVars := cenv.2 } cfg.lower isNum (parse cfg n).1
      let esc (a : String) : String := (a.replace "\n" "\\n").replace "\r" "\\r"
      let codes := ds.map fun d => d.code ++ "(" ++ ",".intercalate (d.args.map fun a => hexStr (esc a)) ++ ")"
      ";".intercalate (codes.foldr insertStr [])
    | _, _, _, _, _ => "bad-op"
  | _ => "bad-op"

end Driver.ParseWfD

namespace Driver.ParseWfD
open AL.Yaml AL.Ast AL.PW Driver

/-- `actionmeta <node>`: what `action.yml` (its document node) decodes to. Answer: the canonical form of the metadata,
`error` or `unsupported` -/
def handleActionMeta : List String → String
  | [node] =>
    match (readSExp node) >>= nodeOf with
    | some n =>
      match AL.ActionDecode.fromDoc (cfgOf []) n with
      | .error .unsupported => "unsupported"
      | .error _ => "error"
      | .ok m =>
        let r := m.runs
        let rs := ",".intercalate [hexStr r.using_, hexStr r.main, hexStr r.pre, hexStr r.preIf, hexStr r.post, hexStr r.postIf, hexStr r.image,
          hexStr r.preEntrypoint, hexStr r.entrypoint, hexStr r.postEntrypoint, b01 r.stepsNil, b01 r.stepsNonEmpty, b01 r.argsNil, b01 r.envNil]
        s!"name={hexStr m.name} desc={hexStr m.description} icon={hexStr m.branding.icon} color={hexStr m.branding.color} runs=({rs}) " ++
        "in" ++ mapS (fun (i : String × Bool) => s!"{hexStr i.1},{b01 i.2}") (m.inputs.map fun e => (e.1, (e.2.1, e.2.2))) ++
        " out" ++ mapS (fun (o : String) => hexStr o) m.outputs
    | none => "bad-op"
  | _ => "bad-op"

end Driver.ParseWfD

namespace Driver.ParseWfD
open AL.Yaml AL.Ast AL.PW Driver

/-- `configmeta <bad regexps> <bad globs> <node>`: what `ParseConfig` makes of the document node of actionlint.yaml.
Answer: `labels=[…] vars=N|[…] paths={glob=[patterns…];…}` (paths sorted by key), `error` or `unsupported` -/
def handleConfigMeta : List String → String
  | [badre, badglob, node] =>
    let br : Option (List String) := (readSExp badre) >>= listOf >>= fun l => l.mapM SExp.str?
    let bg : Option (List String) := (readSExp badglob) >>= listOf >>= fun l => l.mapM SExp.str?
    match br, bg, (readSExp node) >>= nodeOf with
    | some br, some bg, some n =>
      match AL.ConfigDecode.parseConfig (fun r => !br.contains r) (fun g => !bg.contains g) n with
      | .error .unsupported => "unsupported"
      | .error _ => "error"
      | .ok c =>
        let strs (l : List String) : String := "[" ++ ",".intercalate (l.map hexStr) ++ "]"
        s!"labels={strs c.labels} vars={match c.configVars with | none => "N" | some v => strs v} paths=" ++
          mapS (fun (ps : List String) => strs ps) c.paths
    | _, _, _ => "bad-op"
  | _ => "bad-op"

end Driver.ParseWfD

namespace Driver.ParseWfD
open AL.Yaml AL.Ast AL.PW Driver

/-- `ignoretail <cli (hex,…)|E> <bad regexps> <bad globs> <config node|N> <relpath hex> <display path hex>
<raw ((line,col,msghex),…)|E> <re table ((pathex,msghex),…)|E> <glob table (globhex,…)|E>`:
the tail of `Linter.check` (AL.Ignore.lintTailOpt) — which of the raw diagnostics of a file are kept, in output order.
The two tables are the TRUE entries of `regexp.MatchString` (pattern × message) and `doublestar.MatchUnvalidated`
(glob × path), computed by the harness with the real engines. Answer: `line:col:msghex,…`, `none`, or `config-error`. -/
def handleIgnoreTail : List String → String
  | [cli, badre, badglob, node, rel, disp, raw, ret, glt] =>
    let strs (s : String) : Option (List String) := (readSExp s) >>= listOf >>= fun l => l.mapM SExp.str?
    let cfg : Option (Option AL.ConfigDecode.Config) :=
      if node = "N" then some none
      else match strs badre, strs badglob, (readSExp node) >>= nodeOf with
        | some br, some bg, some n =>
          match AL.ConfigDecode.parseConfig (fun r => !br.contains r) (fun g => !bg.contains g) n with
          | .ok c => some (some c)
          | .error _ => none
        | _, _, _ => none
    let rawL : Option (List AL.Lint.D) := (readSExp raw) >>= listOf >>= fun l => l.mapM fun e =>
      match e with
      | .list [.atom li, .atom co, m] =>
        (SExp.str? m).map fun msg => ({ file := "", line := li.toNat!, col := co.toNat!, msg := msg, kind := "" } : AL.Lint.D)
      | _ => none
    let reT : Option (List (String × String)) := (readSExp ret) >>= listOf >>= fun l => l.mapM fun e =>
      match e with
      | .list [a, b] => match SExp.str? a, SExp.str? b with | some x, some y => some (x, y) | _, _ => none
      | _ => none
    match strs cli, cfg, unhexStr rel, unhexStr disp, rawL, reT, strs glt with
    | some cli, some cfg, some rel, some disp, some rawL, some reT, some glT =>
      let out := AL.Ignore.lintTailOpt (fun p m => reT.contains (p, m)) (fun g _ => glT.contains g) cli cfg rel disp rawL
      if out.isEmpty then "none" else ",".intercalate (out.map fun d => s!"{d.line}:{d.col}:{hexStr d.msg}")
    | _, none, _, _, _, _, _ => "config-error"
    | _, _, _, _, _, _, _ => "bad-op"
  | _ => "bad-op"

end Driver.ParseWfD

namespace Driver.ParseWfD
open AL.Yaml AL.Ast AL.PW Driver
open AL.ShellVisit in
/-- `shellvisitdoc <numbers> <node>`: the decisions of rule_shellcheck.go / rule_pyflakes.go for a DOCUMENT — the parser model,
then `AL.C20D.shellView` (what the two rules read of the AST), then the visitor models `AL.ShellVisit.scWorkflow` /
`pyWorkflow`. Same answer format as `shellvisit` (jobs `;`, steps `,`, `<shell handed to shellcheck or ->/<pyflakes 0|1>`). -/
def handleShellVisitDoc : List String → String
  | [nums, node] =>
    let ns : Option (List Num) := match readSExp nums with
      | some (.atom "E") => some []
      | some (.list l) => l.mapM numOf
      | _ => none
    match ns, (readSExp node) >>= nodeOf with
    | some ns, some n =>
      let wf := AL.C20D.shellView (parse (cfgOf ns) n).1
      let sc := (scWorkflow Driver.lower ScSt.init wf).2
      let py := (pyWorkflow PySt.init wf).2
      ";".intercalate ((sc.zip py).map fun (a, b) =>
        ",".intercalate ((a.zip b).map fun (s, p) =>
          let tool := match s with
            | some eff => (AL.Proc.shellcheckShell eff).getD "-"
            | none => "-"
          s!"{tool}/{if p then 1 else 0}"))
    | _, _ => "bad-op"
  | _ => "bad-op"

end Driver.ParseWfD

namespace Driver.ParseWfD
open AL.Yaml AL.Ast AL.PW Driver

/-- `callsrun <env> (<self hex|N> <numbers> <node>)…`: a RUN over several files of one project sharing the cache of
reusable-workflow interfaces (AL.ProjRun.callsRun; AL.C10F): per file, in order, the diagnostics of rule workflow-call
(`line:col:kind:code:args`, `;`-separated) and the sorted expression diagnostics the look-ups add (`code(args)`), as
`W…#E…`, files separated by `|`. `<env>` as for `lintwfp` (its `self` is ignored: every file brings its own). -/
def handleCallsRun : List String → String
  | env :: rest =>
    let rec files : List String → Option (List (AL.ProjRun.File × Cfg))
      | [] => some []
      | self :: nums :: node :: more => do
        let ns : List Num ← match readSExp nums with
          | some (.atom "E") => some []
          | some (.list l) => l.mapM numOf
          | _ => none
        let n ← (readSExp node) >>= nodeOf
        let sf : Option String ← if self = "N" then some none else (unhexStr self).map some
        let cfg := cfgOf ns
        let tl ← files more
        pure (({ self := sf, wf := (parse cfg n).1 }, cfg) :: tl)
      | _ => none
    match (readSExp env) >>= envOf, files rest with
    | some e, some fs =>
      let p : AL.ProjRun.Proj := { hasProject := e.hasProject, disk := e.disk }
      let out := AL.ProjRun.callsRun p Driver.lower (fs.map (·.1)) []
      let esc (a : String) : String := (a.replace "\n" "\\n").replace "\r" "\\r"
      "|".intercalate (out.map fun views =>
        let w := views.flatMap (·.2.wc)
        let ex := (views.flatMap (·.2.exprErrs)).map fun d => d.code ++ "(" ++ ",".intercalate (d.args.map fun a => hexStr (esc a)) ++ ")"
        "W" ++ ";".intercalate (w.map diagS) ++ "#E" ++ ";".intercalate (ex.foldr insertStr []))
    | _, _ => "bad-op"
  | _ => "bad-op"

end Driver.ParseWfD
