import AL.Model.Hex
namespace Driver
open AL

def bytesToString (bs : List Nat) : String :=
  String.ofList ((decodeUtf8 bs).map fun s => Char.ofNat s.r)

def unhexStr (h : String) : Option String := (unhex h).map bytesToString

def strToBytes (s : String) : List Nat := s.toUTF8.toList.map (·.toNat)

def hexStr (s : String) : String := hexBytes (strToBytes s)

/-- `strings.ToLower` restricted to what the generators produce: ASCII letters fold, everything else
is unchanged, except U+212A KELVIN SIGN → 'k' and U+0130 → 'i̇' (Go special cases) which the generator
may emit to probe the difference. -/
def lower (s : String) : String :=
  String.ofList (s.toList.flatMap fun c =>
    if c.toNat = 0x212A then ['k']
    else if 'A' ≤ c ∧ c ≤ 'Z' then [Char.ofNat (c.toNat + 32)]
    else [c])

def splitOn1 (s : String) (sep : String) : List String :=
  if s = "" then [] else s.splitOn sep

/-- All permutations of a list (used to enumerate map-iteration orders of small maps). -/
def inserts {α} (x : α) : List α → List (List α)
  | [] => [[x]]
  | y :: ys => (x :: y :: ys) :: (inserts x ys).map (y :: ·)

def perms {α} : List α → List (List α)
  | [] => [[]]
  | x :: xs => (perms xs).flatMap (inserts x)

def dedupSorted (l : List String) : List String :=
  let sorted := l.toArray.qsort (· < ·) |>.toList
  sorted.foldr (fun x acc => match acc with
    | y :: _ => if x = y then acc else x :: acc
    | [] => [x]) []

end Driver

namespace Driver

/-- S-expressions of the line protocol: atoms are runs of characters other than `( ) ,`;
lists are `(a,b,c)`; `()` is the empty list. No whitespace. -/
inductive SExp where
  | atom (s : String)
  | list (l : List SExp)
deriving Repr, Inhabited

mutual
partial def parseSExp : List Char → Option (SExp × List Char)
  | '(' :: rest =>
    match rest with
    | ')' :: r => some (.list [], r)
    | _ => parseItems rest []
  | cs =>
    let a := cs.takeWhile fun c => c ≠ '(' && c ≠ ')' && c ≠ ','
    if a.isEmpty then none else some (.atom (String.ofList a), cs.drop a.length)
partial def parseItems (cs : List Char) (acc : List SExp) : Option (SExp × List Char) :=
  match parseSExp cs with
  | none => none
  | some (e, rest) =>
    match rest with
    | ',' :: r => parseItems r (acc ++ [e])
    | ')' :: r => some (.list (acc ++ [e]), r)
    | _ => none
end

def readSExp (s : String) : Option SExp :=
  match parseSExp s.toList with
  | some (e, []) => some e
  | _ => none

def SExp.atom? : SExp → Option String
  | .atom s => some s
  | _ => none

def SExp.list? : SExp → Option (List SExp)
  | .list l => some l
  | _ => none

def SExp.nat? (e : SExp) : Option Nat := e.atom? >>= String.toNat?
def SExp.str? (e : SExp) : Option String := e.atom? >>= unhexStr

end Driver
