import AL.Model.Hex
namespace Driver
open AL

def bytesToString (bs : List Nat) : String :=
  String.ofList ((decodeUtf8 bs).map fun s => Char.ofNat s.r)

def unhexStr (h : String) : Option String := (unhex h).map bytesToString

def strToBytes (s : String) : List Nat := s.toUTF8.toList.map (·.toNat)

def hexStr (s : String) : String := hexBytes (strToBytes s)

/-- `strings.ToLower` restricted to what the generators produce: ASCII letters fold, everything else
is unchanged, except U+212A KELVIN SIGN → 'k' and U+0130 → 'i̇' (Go special cases) which the generator
may emit to probe the difference. -/
def lower (s : String) : String :=
  String.ofList (s.toList.flatMap fun c =>
    if c.toNat = 0x212A then ['k']
    else if 'A' ≤ c ∧ c ≤ 'Z' then [Char.ofNat (c.toNat + 32)]
    else [c])

def splitOn1 (s : String) (sep : String) : List String :=
  if s = "" then [] else s.splitOn sep

/-- All permutations of a list (used to enumerate map-iteration orders of small maps). -/
def inserts {α} (x : α) : List α → List (List α)
  | [] => [[x]]
  | y :: ys => (x :: y :: ys) :: (inserts x ys).map (y :: ·)

def perms {α} : List α → List (List α)
  | [] => [[]]
  | x :: xs => (perms xs).flatMap (inserts x)

def dedupSorted (l : List String) : List String :=
  let sorted := l.toArray.qsort (· < ·) |>.toList
  sorted.foldr (fun x acc => match acc with
    | y :: _ => if x = y then acc else x :: acc
    | [] => [x]) []

end Driver
