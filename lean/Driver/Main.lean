import Driver.Glob
import Driver.Needs
import Driver.Matrix
import Driver.Expr
import Driver.Sema
import Driver.Lint
import Driver.Render
import Driver.Proc
import AL.Model.SrcPos
import Driver.Calls
import Driver.Visit
import Driver.ParseStep
import Driver.ParseWf
import Driver.Cron
import Driver.Print

def dispatch (line : String) : String :=
  match (line.trimAscii.toString.splitOn " ").filter (· ≠ "") with
  | "glob" :: args => Driver.Glob.handle args
  | "needs" :: args => Driver.Needs.handle args
  | "matrix" :: args => Driver.Matrix.handle args
  | "lex" :: args => Driver.Expr.handleLex args
  | "parse" :: args => Driver.Expr.handleParse args
  | "sema" :: args => Driver.SemaD.handle args
  | "tyop" :: args => Driver.SemaD.handleTyOp args
  | "visit" :: args => Driver.VisitD.handle args
  | "visitsrc" :: args => Driver.VisitD.handleSrc args
  | "parsestep" :: args => Driver.ParseStepD.handle args
  | "parsewf" :: args => Driver.ParseWfD.handle args
  | "lintwf" :: args => Driver.ParseWfD.handleLint args
  | "exprwf" :: args => Driver.ParseWfD.handleExpr args
  | "callmeta" :: args => Driver.ParseWfD.handleCallMeta args
  | "lintwfp" :: args => Driver.ParseWfD.handleLintP args
  | "exprwfp" :: args => Driver.ParseWfD.handleExprP args
  | "actionmeta" :: args => Driver.ParseWfD.handleActionMeta args
  | "configmeta" :: args => Driver.ParseWfD.handleConfigMeta args
  | "lintsort" :: args => Driver.LintD.handleSort args
  | "relpath" :: args => Driver.LintD.handleRel args
  | "projectat" :: args => Driver.LintD.handleProjectAt args
  | "matcher" :: args => Driver.RenderD.handleMatcher args
  | "header" :: args => Driver.RenderD.handleHeader args
  | "snippet" :: args => Driver.RenderD.handleSnippet args
  | "indicator" :: args => Driver.RenderD.handleIndicator args
  | "jsonenc" :: args => Driver.RenderD.handleJsonEnc args
  | "escape" :: args => Driver.RenderD.handleEscape args
  | "pretty" :: args => Driver.PrintD.handlePretty args
  | "ignoretail" :: args => Driver.ParseWfD.handleIgnoreTail args
  | "shellvisitdoc" :: args => Driver.ParseWfD.handleShellVisitDoc args
  | "callsrun" :: args => Driver.ParseWfD.handleCallsRun args
  | "cron" :: args => Driver.CronD.handle args
  | "sanitize" :: args => Driver.RenderD.handleSanitize args
  | "exproffsets" :: args => Driver.RenderD.handleExprOffsets args
  | "proctrace" :: args => Driver.ProcD.handle args
  | "shell" :: args => Driver.ProcD.handleShell args
  | "toolresult" :: args => Driver.ProcD.handleToolResult args
  | "shellvisit" :: args => Driver.ProcD.handleShellVisit args
  | ["posbefore", l1, c1, l2, c2] =>
    match l1.toNat?, c1.toNat?, l2.toNat?, c2.toNat? with
    | some a, some b, some c, some d => if AL.SrcPos.isBefore ⟨a, b⟩ ⟨c, d⟩ then "1" else "0"
    | _, _, _, _ => "bad-op"
  | "calls" :: args => Driver.CallsD.handle args
  | "calltype" :: args => Driver.CallsD.handleCallType args
  | _ => "bad-op"

partial def loop (hin : IO.FS.Stream) (hout : IO.FS.Stream) : IO Unit := do
  let line ← hin.getLine
  if line.isEmpty then return ()
  hout.putStrLn (dispatch line)
  loop hin hout

def main : IO Unit := do
  let hin ← IO.getStdin
  let hout ← IO.getStdout
  loop hin hout
  hout.flush
