import AL.Model.Print
import Driver.Util
/-
  `pretty <oneline 0|1> <srchex> <filehex> <line> <col> <msghex> <kindhex> [<sw> <((rune,width),…)>]`:
  the hex of everything `(*Error).PrettyPrint` writes (colours off) for ONE diagnostic, as `Linter.printErrors` calls it
  (`-oneline` drops the source). go-runewidth is passed in as for the `indicator` op: `sw` = `StringWidth` of the bytes before the
  column, the table = `RuneWidth` of the runes after it; without them every rune counts one column (printable ASCII).
  Dispatch line for Driver/Main.lean:  `| "pretty" :: args => Driver.PrintD.handlePretty args`
-/
namespace Driver.PrintD
open AL.Render AL.Print Driver

def widths (sw table : Option String) : Option ((List Nat → Nat) × (Nat → Nat)) :=
  match sw, table with
  | none, none => some (fun bs => (AL.decodeUtf8 bs).length, fun _ => 1)
  | some sw, some table =>
    match readSExp table with
    | some (.list l) =>
      let ws : List (Nat × Nat) := l.filterMap fun e => match e with
        | .list [.atom r, .atom w] => some (r.toNat!, w.toNat!)
        | _ => none
      some (fun _ => sw.toNat!, fun r => match ws.find? (·.1 = r) with | some e => e.2 | none => 0)
    | some _ => some (fun _ => sw.toNat!, fun _ => 0)   -- `E`: no rune after the column
    | none => none
  | _, _ => none

def run (ol s f l c m k : String) (sw table : Option String) : String :=
  match AL.unhex s, unhexStr f, unhexStr m, unhexStr k, widths sw table with
  | some src, some file, some msg, some kind, some (w, r) =>
    if ol ≠ "0" ∧ ol ≠ "1" then "bad-op" else
    hexStr (String.ofList (prettyPrint (ol = "1") w r src ⟨file.toList, l.toNat!, c.toNat!, msg.toList, kind.toList⟩))
  | _, _, _, _, _ => "bad-op"

def handlePretty : List String → String
  | [ol, s, f, l, c, m, k] => run ol s f l c m k none none
  | [ol, s, f, l, c, m, k, sw, table] => run ol s f l c m k (some sw) (some table)
  | _ => "bad-op"

end Driver.PrintD
