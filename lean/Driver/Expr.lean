import AL.Model.Parser
import Driver.Util
namespace Driver.Expr
open AL AL.Lex AL.Parse Driver

def symsBytes (l : List Sym) : List Nat := l.flatMap fun s => if s.bad then [0xEF, 0xBF, 0xBD] else encodeRune s.r
def symsHex (l : List Sym) : String := hexBytes (symsBytes l)
def symsLowerHex (l : List Sym) : String := hexStr (lower (bytesToString (symsBytes l)))

def kindNum : TokKind → Nat
  | .unknown => 0 | .end => 1 | .ident => 2 | .string => 3 | .int => 4 | .float => 5 | .lparen => 6
  | .rparen => 7 | .lbracket => 8 | .rbracket => 9 | .dot => 10 | .not => 11 | .less => 12 | .lessEq => 13
  | .greater => 14 | .greaterEq => 15 | .eq => 16 | .notEq => 17 | .and => 18 | .or => 19 | .star => 20
  | .comma => 21

def whereS : Where → String
  | .intPart => "int" | .fracPart => "frac" | .expPart => "exp" | .afterNumber => "afternum"
  | .hexInt => "hex" | .afterHex => "afterhex" | .strEnd => "strend" | .endMarker => "endmarker"
  | .eqOp => "eq" | .andOp => "and" | .orOp => "or" | .expression => "expr"

def lexMsgS : LexMsg → String
  | .scan .nul => "scan:nul"
  | .scan .utf8 => "scan:utf8"
  | .unexpectedEOF => "eof"
  | .unexpected none w => s!"unexp:EOF:{whereS w}"
  | .unexpected (some c) w => s!"unexp:{c}:{whereS w}"

def lexErrS (e : LexErr) : String := s!"lex,{lexMsgS e.msg},{e.pos.off},{e.pos.line},{e.pos.col}"

def pwhereS : ParseWhere → String
  | .funcArgs => "args" | .nested => "nested" | .primary => "primary" | .deref => "deref" | .indexClose => "index"

def parseMsgS : ParseMsg → String
  | .unexpected w k => s!"unexp:{pwhereS w}:{kindNum k}"
  | .badInt l => s!"badint:{symsHex l}"
  | .badFloat l => s!"badfloat:{symsHex l}"
  | .remaining c ks => s!"remain:{c}:{"/".intercalate (ks.map fun k => toString (kindNum k))}"
  | .fuel => "FUEL"

def parseErrS (e : ParseErr) : String := s!"parse,{parseMsgS e.msg},{e.off},{e.line},{e.col}"

def cmpS : CmpKind → String
  | .less => "lt" | .lessEq => "le" | .greater => "gt" | .greaterEq => "ge" | .eq => "eq" | .notEq => "ne"

partial def exprS : Expr → String
  | .null => "null"
  | .bool true => "true"
  | .bool false => "false"
  | .int v => s!"i{v}"
  | .float l => s!"f{symsHex l}"
  | .str v => s!"s{symsHex v}"
  | .var n => s!"v{symsLowerHex n}"
  | .call c args => s!"call({symsHex c}{String.join (args.map fun a => "," ++ exprS a)})"
  | .objDeref r p => s!"od({exprS r},{symsLowerHex p})"
  | .arrDeref r => s!"ad({exprS r})"
  | .index r i => s!"ix({exprS r},{exprS i})"
  | .not e => s!"not({exprS e})"
  | .cmp k l r => s!"{cmpS k}({exprS l},{exprS r})"
  | .logical .and l r => s!"and({exprS l},{exprS r})"
  | .logical .or l r => s!"or({exprS l},{exprS r})"

def tokS (t : Tok) : String := s!"{kindNum t.kind}:{symsHex t.val}:{t.off}:{t.line}:{t.col}"

def handleLex : List String → String
  | [hex] =>
    match unhex hex with
    | none => "bad-op"
    | some bs =>
      match lexExpression (decodeUtf8 bs) with
      | .ok (ts, off) => s!"ok,{off};{";".intercalate (ts.map tokS)}"
      | .error (e, off) => s!"err,{off},{lexErrS e}"
  | _ => "bad-op"

def handleParse : List String → String
  | [hex] =>
    match unhex hex with
    | none => "bad-op"
    | some bs =>
      match parseToks (tokens (decodeUtf8 bs)) with
      | .ok e => s!"ok {exprS e}"
      | .error (.lex e) => s!"err {lexErrS e}"
      | .error (.parse e) => s!"err {parseErrS e}"
  | _ => "bad-op"

end Driver.Expr
