import AL.Model.ParseStep
import Driver.Util
namespace Driver.ParseStepD
open AL.ParseStep Driver

def optS : Option V → String
  | none => "-"
  | some v => toString v

def execS : Exec → String
  | .none => "none"
  | .action u w => s!"action({optS u},{optS w})"
  | .run r s w => s!"run({optS r},{optS s},{optS w})"

def diagS : Diag → String
  | .runKeyInActionStep k => s!"runkey:{hexStr k}"
  | .actionKeyInRunStep k => s!"actionkey:{hexStr k}"
  | .unexpectedKey k => s!"unexpected:{hexStr k}"
  | .usesRequired => "uses-required"
  | .runRequired => "run-required"
  | .noExec => "no-exec"
  | .workDirWithUses => "workdir-with-uses"

/-- `parsestep ((key,n),…)`: keys hex, values numbers -/
def handle : List String → String
  | [kvs] =>
    let parsed : Option (List (String × V)) := match readSExp kvs with
      | some (.atom "E") => some []
      | some (.list l) => l.mapM fun (p : SExp) => match p with
        | SExp.list [k, v] => do pure ((← k.str?), (← v.nat?))
        | _ => none
      | _ => none
    match parsed with
    | none => "bad-op"
    | some l =>
      let (st, ds) := parseStep l
      s!"id={optS st.id};if={optS st.cond};name={optS st.name};env={optS st.env};coe={optS st.continueOnError};tm={optS st.timeoutMinutes};exec={execS st.exec};diags={",".intercalate (ds.map diagS)}"
  | _ => "bad-op"

end Driver.ParseStepD
