import AL.Model.Proc
import AL.Model.ShellVisit
import Driver.Util
namespace Driver.ProcD
open AL.Proc Driver

def actOf (s : String) : Option Act :=
  match s.toList with
  | 's' :: r => (String.ofList r).toNat?.map .submit
  | 'a' :: r => (String.ofList r).toNat?.map .acquire
  | 'f' :: r => (String.ofList r).toNat?.map .finish
  | 'c' :: r => (String.ofList r).toNat?.map .callback
  | ['v'] => some .visitDone
  | ['e'] => some .egWait
  | ['p'] => some .procWait
  | ['r'] => some .ret
  | _ => none

/-- replay a trace; report the first action the model does not allow, and check the bound in every state -/
def replay (s : State) : List Act → Nat → String
  | [], _ => s!"ok running={count s.pcs .running} wg={s.wg} sema={s.sema} returned={s.returned}"
  | a :: as, k =>
    match step s a with
    | none => s!"rejected at {k}"
    | some s' =>
      if count s'.pcs .running > s'.par then s!"bound violated at {k}"
      else if s'.sema + count s'.pcs .running ≠ s'.par then s!"permits violated at {k}"
      else replay s' as (k + 1)

/-- `proctrace <par> <n> <a,b,c…>` -/
def handle : List String → String
  | [par, n, acts] =>
    match (splitOn1 (if acts = "." then "" else acts) ",").mapM actOf with
    | some as => replay (init par.toNat! n.toNat!) as 0
    | none => "bad-op"
  | _ => "bad-op"

/-- `shell <stephex|N> <job> <workflow> <runner>` → effective shell, shellcheck shell, python? -/
def handleShell : List String → String
  | [st, j, w, r, pj, pw] =>
    let step := if st = "N" then none else unhexStr st
    match unhexStr j, unhexStr w, unhexStr r with
    | some job, some wf, some runner =>
      let eff := effectiveShell step job wf runner
      let sc := (shellcheckShell eff).getD "-"
      let pk (s : String) : PyKind := if s = "N" then .unspecified else pyKind (unhexStr s)
      let py := isPython step (pk pj) (pk pw)
      s!"{hexStr eff} {sc} {if py then 1 else 0}"
    | _, _, _ => "bad-op"
  | _ => "bad-op"

/-- `toolresult <sc|py> <cannotstart|signaled|exited> <code> <stdouthex> <json: N or count>` → `fatal` | `diags n` -/
def handleToolResult : List String → String
  | [tool, term, code, out, js] =>
    match AL.unhex out with
    | none => "bad-op"
    | some bytes =>
      let o : Option ToolOutcome := match term with
        | "cannotstart" => some .cannotStart
        | "signaled" => some (.signaled bytes)
        | "exited" => code.toNat?.map (fun c => .exited c bytes)
        | _ => none
      match o with
      | none => "bad-op"
      | some o =>
        let res := if tool = "sc" then shellcheckCallback (fun _ => if js = "N" then none else js.toNat?) o
                   else pyflakesCallback o
        match res with
        | .fatal => "fatal"
        | .diags n => s!"diags {n}"
  | _ => "bad-op"

open AL.ShellVisit in
/-- `shellvisit <workflow>`: workflow = (hasDefaultsRun, shell|N, (job…)), job = (hasDefaultsRun, shell|N, (label…), (step…)),
step = (shell|N, isRun). Output: jobs separated by `;`, steps by `,`, each `<shell handed to shellcheck or ->/<pyflakes 0|1>` -/
def handleShellVisit : List String → String
  | [w] =>
    let optStr : SExp → Option (Option String) := fun e => match e with
      | .atom "N" => some none
      | x => x.str?.map some
    let lst : SExp → Option (List SExp) := fun e => match e with
      | .atom "E" => some []
      | .list l => some l
      | _ => none
    let stepOf : SExp → Option StepS := fun e => match e with
      | .list [sh, r] => do pure { shell := (← optStr sh), isRun := (← r.nat?) = 1 }
      | _ => none
    let jobOf : SExp → Option JobS := fun e => match e with
      | .list [h, sh, ls, ss] => do
        pure { hasDefaultsRun := (← h.nat?) = 1, defShell := (← optStr sh), labels := (← (← lst ls).mapM SExp.str?), steps := (← (← lst ss).mapM stepOf) }
      | _ => none
    match readSExp w with
    | some (.list [h, sh, js]) =>
      match (do
        let jobs ← (← lst js).mapM jobOf
        pure ({ hasDefaultsRun := (← h.nat?) = 1, defShell := (← optStr sh), jobs := jobs } : WfS)) with
      | some wf =>
        let sc := (scWorkflow lower ScSt.init wf).2
        let py := (pyWorkflow PySt.init wf).2
        ";".intercalate ((sc.zip py).map fun (a, b) =>
          ",".intercalate ((a.zip b).map fun (s, p) =>
            let tool := match s with
              | some eff => (shellcheckShell eff).getD "-"
              | none => "-"
            s!"{tool}/{if p then 1 else 0}"))
      | none => "bad-op"
    | _ => "bad-op"
  | _ => "bad-op"

end Driver.ProcD
