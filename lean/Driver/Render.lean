import AL.Model.Render
import AL.Model.Proc
import Driver.Util
namespace Driver.RenderD
open AL.Render Driver

def charsHex (l : List Char) : String := hexStr (String.ofList l)

/-- `matcher <linehex>` -/
def handleMatcher : List String → String
  | [h] =>
    match unhexStr h with
    | none => "bad-op"
    | some line =>
      match matcher line.toList with
      | none => "none"
      | some d => s!"{charsHex d.file} {d.line} {d.col} {charsHex d.msg} {charsHex d.kind}"
  | _ => "bad-op"

/-- `header <file> <line> <col> <msg> <kind>` -/
def handleHeader : List String → String
  | [f, l, c, m, k] =>
    match unhexStr f, unhexStr m, unhexStr k with
    | some file, some msg, some kind =>
      charsHex (header ⟨file.toList, l.toNat!, c.toNat!, msg.toList, kind.toList⟩)
    | _, _, _ => "bad-op"
  | _ => "bad-op"

/-- `snippet <srchex> <line> <col>`: the source line shown, or `none` -/
def handleSnippet : List String → String
  | [s, l, c] =>
    match AL.unhex s with
    | none => "bad-op"
    | some src =>
      match snippetLine src l.toNat! c.toNat! with
      | none => "none"
      | some ln => AL.hexBytes ln
  | _ => "bad-op"

/-- `sanitize <scripthex>` -/
def handleSanitize : List String → String
  | [s] =>
    match AL.unhex s with
    | none => "bad-op"
    | some src => AL.hexBytes (AL.Proc.sanitize src)
  | _ => "bad-op"

end Driver.RenderD
