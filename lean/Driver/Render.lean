import AL.Model.Render
import AL.Model.JsonEnc
import AL.Model.Messages
import AL.Model.Proc
import AL.Model.Positions
import AL.Model.Parser
import Driver.Util
namespace Driver.RenderD
open AL.Render Driver

def charsHex (l : List Char) : String := hexStr (String.ofList l)

/-- `matcher <linehex>` -/
def handleMatcher : List String → String
  | [h] =>
    match unhexStr h with
    | none => "bad-op"
    | some line =>
      match matcher line.toList with
      | none => "none"
      | some d => s!"{charsHex d.file} {d.line} {d.col} {charsHex d.msg} {charsHex d.kind}"
  | _ => "bad-op"

/-- `header <file> <line> <col> <msg> <kind>` -/
def handleHeader : List String → String
  | [f, l, c, m, k] =>
    match unhexStr f, unhexStr m, unhexStr k with
    | some file, some msg, some kind =>
      charsHex (header ⟨file.toList, l.toNat!, c.toNat!, msg.toList, kind.toList⟩)
    | _, _, _ => "bad-op"
  | _ => "bad-op"

/-- `snippet <srchex> <line> <col>`: the source line shown, or `none` -/
def handleSnippet : List String → String
  | [s, l, c] =>
    match AL.unhex s with
    | none => "bad-op"
    | some src =>
      match snippetLine src l.toNat! c.toNat! with
      | none => "none"
      | some ln => AL.hexBytes ln
  | _ => "bad-op"

/-- `indicator <linehex> <col> <width of the bytes before the column> <((rune,width),…)>`: the line under the snippet -/
def handleIndicator : List String → String
  | [ln, c, sw, table] =>
    match AL.unhex ln, (readSExp table) with
    | some line, some t =>
      let ws : List (Nat × Nat) := match t with
        | .list l => l.filterMap fun e => match e with
          | .list [.atom r, .atom w] => some (r.toNat!, w.toNat!)
          | _ => none
        | _ => []
      let rw : Nat → Nat := fun r => match ws.find? (·.1 = r) with | some e => e.2 | none => 0
      hexStr (String.ofList (indicator (fun _ => sw.toNat!) rw line c.toNat!))
    | _, _ => "bad-op"
  | _ => "bad-op"

/-- `jsonenc (<msghex> <filehex> <line> <col> <kindhex> <snippethex> <endcol>)*`: the `{{json .}}` output for these records -/
def handleJsonEnc (args : List String) : String :=
  let rec go : List String → List AL.JsonEnc.Fields → Option (List AL.JsonEnc.Fields)
    | [], acc => some acc
    | m :: f :: l :: c :: k :: s :: e :: rest, acc =>
      match unhexStr m, unhexStr f, unhexStr k, unhexStr s with
      | some m, some f, some k, some s =>
        go rest (acc ++ [{ message := m.toList, filepath := f.toList, line := l.toNat!, column := c.toNat!, kind := k.toList,
                           snippet := s.toList, endColumn := e.toNat! }])
      | _, _, _, _ => none
    | _, _ => none
  match go args [] with
  | some fs => hexStr (String.ofList (AL.JsonEnc.encAll fs))
  | none => "bad-op"

/-- `escape <msghex>`: `lineBreakEscaper.Replace` -/
def handleEscape : List String → String
  | [h] =>
    match unhexStr h with
    | some m => hexStr (String.ofList (AL.Msg.escape m.toList))
    | none => "bad-op"
  | _ => "bad-op"

/-- `sanitize <scripthex>` -/
def handleSanitize : List String → String
  | [s] =>
    match AL.unhex s with
    | none => "bad-op"
    | some src => AL.hexBytes (AL.Proc.sanitize src)
  | _ => "bad-op"

end Driver.RenderD

namespace Driver.RenderD
open AL

/-- `exproffsets <scalarhex>`: byte offsets at which `checkExprsIn` starts an expression; the lexer model
supplies `offsetAfter` -/
def handleExprOffsets : List String → String
  | [h] =>
    match AL.unhex h with
    | none => "bad-op"
    | some s =>
      let consume (rest : List Nat) : Nat :=
        -- `checkSemantics`: a lexer or parser error ends the scan of this scalar
        match AL.Lex.lexExpression (AL.decodeUtf8 rest), AL.Parse.parseToks (AL.Lex.tokens (AL.decodeUtf8 rest)) with
        | .ok (_, off), .ok _ => off
        | _, _ => 0
      let offs := AL.Positions.exprOffsets consume s.length s 0
      ",".intercalate (offs.map toString)
  | _ => "bad-op"

end Driver.RenderD
