import AL.Model.Lint
import AL.Model.Projects
import Driver.Util
namespace Driver.LintD
open AL.Lint Driver

def dOf : SExp → Option (D × Bool)
  | .list [f, l, c, id, ig] => do
    pure ({ file := (← f.str?), line := (← l.nat?), col := (← c.nat?), msg := (← id.atom?), kind := "" }, (← ig.nat?) = 1)
  | _ => none

/-- `lintsort (d,…)`: filter then stable sort; prints the ids in output order -/
def handleSort : List String → String
  | [s] =>
    match readSExp s with
    | some (.list items) =>
      match items.mapM dOf with
      | some ds =>
        let ignoredIds := (ds.filter (·.2)).map (·.1.msg)
        let out := stableSort (filterErrors (fun d => ignoredIds.contains d.msg) (ds.map (·.1)))
        ",".intercalate (out.map (·.msg))
      | none => "bad-op"
    | _ => "bad-op"
  | _ => "bad-op"

/-- `relpath cwd root p` (hex strings) -/
def handleRel : List String → String
  | [c, r, p] =>
    match unhexStr c, unhexStr r, unhexStr p with
    | some cwd, some root, some path =>
      let cw := ofString cwd
      let ro := ofString root
      let pa := ofString path
      let disp := displayPath cw pa
      let res := pathFromProjectRoot cw ro disp
      s!"{hexStr disp.toString} {hexStr res.toString} {if knows ro (absOf cw pa) then 1 else 0}"
    | _, _, _ => "bad-op"
  | _ => "bad-op"

/-- `projectat <roots> <paths>`: roots and paths are lists of component lists (hex); prints for every path, looked up in
sequence through one cache, the root found (components joined by `/`) or `-` -/
def handleProjectAt : List String → String
  | [rs, ps] =>
    let compsOf : SExp → Option (List String) := fun e => match e with
      | .atom "E" => some []
      | .list l => l.mapM SExp.str?
      | _ => none
    let listOf : SExp → Option (List (List String)) := fun e => match e with
      | .atom "E" => some []
      | .list l => l.mapM compsOf
      | _ => none
    match readSExp rs >>= listOf, readSExp ps >>= listOf with
    | some roots, some paths =>
      let isRoot : List String → Bool := fun d => roots.contains d
      let res := (AL.Projects.atAll isRoot [] paths).1
      ";".intercalate (res.map fun r => match r with
        | none => "-"
        | some cs => "/" ++ "/".intercalate cs)
    | _, _ => "bad-op"
  | _ => "bad-op"

end Driver.LintD
