import sys, json
pid=sys.argv[1]
prop=open('/tmp/prop-%s.txt'%pid).read()
focus=json.load(open('/verif/tools/round12_focus.json'))[pid]
base=open('/verif/tools/mutant_prompt.py').read()
ns={}
import io, contextlib
buf=io.StringIO()
sys.argv=['x',pid]
with contextlib.redirect_stdout(buf):
    exec(base, {'__name__':'__main__'})
text=buf.getvalue()
marker="Your task: make ONE small"
extra=f"""For this round, aim your change at THIS part of the property and at THESE source files (other parts and files have been exercised already): «{focus}». Choose a place in the code that is NOT the most obvious one for it — e.g. a helper, a less central rule or a conversion that the clause silently relies on — and make the change need two independent conditions to manifest.

"""
print(text.replace(marker, extra+marker))
