import sys
pid=sys.argv[1]
prop=open('/tmp/prop-%s.txt'%pid).read()
print(f"""You are testing how well a verification harness (which you cannot see) detects subtle regressions in the Go project rhysd/actionlint (a static checker for GitHub Actions workflow files). You have your own scratch git worktree of the project at /tmp/mut-{pid} (detached HEAD of the current tree). Work ONLY inside /tmp/mut-{pid}; never read or write /verif or /repo or any other /tmp/mut-* directory; do not commit.

Environment: no network. For every shell call use: export GOFLAGS=-mod=mod GOPROXY=off GOSUMDB=off GOTOOLCHAIN=local . The project's own test suite is `cd /tmp/mut-{pid} && go test -count=1 .` (root package; about 1 second) plus `go test -count=1 ./scripts/check-checks/`; the tests under scripts/generate-* need the network and fail regardless — ignore those.

The property under test (this is ALL you are told about what is being verified):

---
{prop}---

Your task: make ONE small, realistic change to the Go sources of actionlint (non-test files; a change a tired maintainer could plausibly make in a refactoring or a 'small improvement': an off-by-one, a dropped or reordered condition, a wrong variable, a missed case in a switch, a changed map key or constant, a loop bound, a flipped comparison, an early return, state that is not reset, …) such that
  1. the project still compiles (`go build ./...` and `go vet .`),
  2. the existing test suite still passes completely (`go test -count=1 .` and `go test -count=1 ./scripts/check-checks/` — run them and make sure they are green WITH your change; if a test fails, pick a different change),
  3. the property above is violated, and
  4. the violation does NOT show up in ordinary use at once: it needs something specific to manifest — an unusual input, a particular position or nesting, a particular combination of keys, a multi-step sequence, a particular letter case, a rare token combination, several files / jobs / steps in a particular order, two cooperating sites that each look fine alone, etc. Prefer a change deep in the logic the property is about (read the relevant source files first: the property text tells you which behaviour is meant; find the code that implements it).
Avoid changes that merely reword a message, and avoid changes that break the property for almost every input.

Deliverables, all inside /tmp/mut-{pid}:
  * the change itself left uncommitted in the working tree, and saved with `git diff > /tmp/mut-{pid}/patch.diff` (the diff must contain ONLY your change to non-test source files — create the demonstration files AFTER saving the diff, or exclude them);
  * a demonstration: a Go test file /tmp/mut-{pid}/zz_demo_test.go (package actionlint or actionlint_test, a single test function TestZZDemo) — or, if a test cannot express it, a small program under /tmp/mut-{pid}/zzdemo/main.go — that FAILS with your change and PASSES on the original tree. Verify both directions yourself: run it with the change (must fail), then `git stash` / `git apply -R patch.diff` to get the original sources, run it again (must pass), then re-apply your change so that the working tree ends up WITH the change;
  * /tmp/mut-{pid}/NOTES.md: which property clause is broken, what the change is (file:line), what exactly is needed for it to manifest (the concrete input / sequence), and the exact commands you ran with their results (suite green with the change; demo fails with / passes without).

Final answer: a short summary (what you changed, how it manifests, confirmation of the three runs). If after honest effort you cannot find a change that keeps the existing tests green and breaks the property, say so and describe what you tried.""")
