#!/bin/bash
# tools/seed_regress.sh [name…] — re-applies every kept seeded change to /repo, runs the check of the property it breaks
# (quick tier) and restores /repo. Prints one line per change: CAUGHT (with the first VIOLATION line) or MISSED.
set -u
cd /verif
names=("$@")
if [ ${#names[@]} -eq 0 ]; then names=($(cd seeded && ls -d */ | tr -d /)); fi
for n in "${names[@]}"; do
  d=seeded/$n
  pid=$(python3 -c "import json;print(json.load(open('$d/meta.json'))['breaks_property'])")
  if ! git -C /repo apply --check /verif/$d/patch.diff 2>/dev/null; then echo "$n: patch no longer applies (the code it changes was repaired or moved)"; continue; fi
  git -C /repo apply /verif/$d/patch.diff
  out=$(VERIF_SEED=${VERIF_SEED:-1} ./check $pid --tier quick 2>&1); rc=$?
  git -C /repo checkout -- .
  v=$(echo "$out" | grep -m1 '^VIOLATION')
  if [ $rc -ne 0 ] && [ -n "$v" ]; then echo "$n: CAUGHT by $pid: $v"; else echo "$n: MISSED by $pid (exit $rc)"; fi
done
( cd /verif/go && export GOFLAGS=-mod=mod GOPROXY=off GOSUMDB=off GOTOOLCHAIN=local CGO_ENABLED=0 && go build -tags verif -o bin/ ./... && ./bin/extract -repo /repo -out /verif/lean/AL/Gen -facts /verif/evidence/facts.json ) > /dev/null 2>&1
git -C /repo status --short | grep -v '^??' | head -3
