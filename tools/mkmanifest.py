#!/usr/bin/env python3
"""Regenerates MANIFEST.json from tools/props.json (per-property level text) — keeps the file valid."""
import json, os, subprocess
ROOT = os.path.dirname(os.path.dirname(os.path.abspath(__file__)))
props = json.load(open(os.path.join(ROOT, "tools", "props.json")))
all_ids = [json.loads(l)["id"] for l in open(os.path.join(ROOT, "properties.jsonl"))]
try:
    commits = subprocess.run(["git", "-C", "/repo", "log", "--format=%H %s"], capture_output=True, text=True).stdout.splitlines()
except Exception:
    commits = []
hook_commits = [c.split()[0] for c in commits if " verif:" in c or " hook:" in c]
baseline = json.load(open("/root/.vp/BASELINE.json"))["cmd"] if os.path.exists("/root/.vp/BASELINE.json") else "go test ./..."
checks, na = [], []
for pid in all_ids:
    p = props.get(pid)
    if not p or p.get("not_applicable"):
        na.append({"property_id": pid, "reason": (p or {}).get("not_applicable", "check not built yet in this round; see DESIGN.md section 5")})
        continue
    checks.append({
        "property_id": pid,
        "quick_cmd": "./check %s --tier quick" % pid,
        "thorough_cmd": "./check %s --tier thorough" % pid,
        "evidence_file": "evidence/%s.json" % pid,
        "replay_cmd_template": "./check %s --replay {path}" % pid,
        "engine": "lean4+corr",
        "level_claimed": {"category": "proof", "text": p["text"], "design_ref": p.get("design_ref", "DESIGN.md §5 " + pid)},
        "level_note": p["note"],
        "technique": p["technique"],
    })
man = {
    "version": 1,
    "setup_cmd": "./setup.sh",
    "hooks": {
        "guard": "verif",
        "enable": "go build -tags verif (the harness in /verif/go builds /repo through a replace directive with -tags verif)",
        "baseline_off_cmd": baseline,
        "source_commits": hook_commits,
        "add_only": True,
    },
    "engines": [
        {"name": "lean4+corr", "path": "check", "serves_properties": [c["property_id"] for c in checks],
         "kind_free_text": "Lean 4 theorems about an executable model (lean/AL), re-checked every run with an axiom audit; model tied to /repo by regenerated facts (go/extract -> AL/Gen) and by a differential run of the real code against the compiled model (go/corr <-> aldriver); property oracles on the implementation turn a broken tie into a replayable input"},
    ],
    "checks": checks,
    "not_applicable": na,
    "notes": "See DESIGN.md. known_findings.txt lists recorded defects (KNOWN-FINDING lines) and fix: commits.",
}
json.dump(man, open(os.path.join(ROOT, "MANIFEST.json"), "w"), indent=1, ensure_ascii=False)
print("checks:", [c["property_id"] for c in checks], "n/a:", [n["property_id"] for n in na])
