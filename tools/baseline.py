#!/usr/bin/env python3
"""Runs /repo's test suite with the verif guard OFF and checks every stable_pass test of BASELINE.json passes."""
import json, os, subprocess, sys
base = json.load(open("/root/.vp/BASELINE.json"))
want = set(base["stable_pass"])
env = dict(os.environ, GOFLAGS="-mod=mod", GOPROXY="off", GOSUMDB="off", GOTOOLCHAIN="local")
p = subprocess.run(["go", "test", "-json", "-vet=off", "-count=1", "-timeout", "25m", "./..."], cwd="/repo", env=env, capture_output=True, text=True)
passed, failed = set(), set()
for line in p.stdout.splitlines():
    try:
        ev = json.loads(line)
    except Exception:
        continue
    if ev.get("Test") and ev.get("Action") in ("pass", "fail"):
        name = "%s::%s" % (ev["Package"], ev["Test"])
        (passed if ev["Action"] == "pass" else failed).add(name)
missing = sorted(want - passed)
print("stable_pass: %d, passed now: %d, missing/failed: %d" % (len(want), len(want & passed), len(missing)))
for m in missing[:40]:
    print("  NOT PASSING:", m)
sys.exit(1 if missing else 0)
