#!/usr/bin/env python3
"""Regenerates section 5 of DESIGN.md (per-property table) from the audit files (theorem names) and tools/design_ties.json."""
import glob, json, os, re
ROOT = os.path.dirname(os.path.dirname(os.path.abspath(__file__)))
ties = json.load(open(os.path.join(ROOT, "tools", "design_ties.json")))
rows = []
for i in range(1, 21):
    pid = "C%02d" % i
    names = []
    for f in sorted(glob.glob(os.path.join(ROOT, "lean", "AL", "Audit", pid + "*.lean"))):
        mod = os.path.basename(f)[:-5]
        ns = [m.group(1).split(".")[-1] for m in re.finditer(r"#print axioms (\S+)", open(f).read())]
        names.append((mod, ns))
    n = sum(len(ns) for _, ns in names)
    cell = "; ".join("**%s**: %s" % (mod, ", ".join("`%s`" % x for x in ns)) for mod, ns in names)
    rows.append("| %s | %d | %s | %s |" % (pid, n, cell, ties.get(pid, "")))
table = "\n".join(["| ID | obl. | theorems audited (file: names) | tie + oracle (go/corr), short |", "|---|---|---|---|"] + rows)
p = os.path.join(ROOT, "DESIGN.md")
s = open(p).read()
i = s.index("| ID | obl. |")
j = s.index("\n\n", i)
s = s[:i] + table + s[j:]
open(p, "w").write(s)
print("section 5 regenerated:", sum(int(r.split("|")[2]) for r in rows), "audited theorems")
