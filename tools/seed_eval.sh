#!/bin/bash
# tools/seed_eval.sh <name> <mutant-dir> <property> [more properties…]
# Confirms a seeded change (suite green with it, demo fails with / passes without) in a scratch worktree,
# stores it under /verif/seeded/<name>/, then applies it to /repo, runs the named checks, and undoes it.
set -u
name=$1; mdir=$2; shift 2
export GOFLAGS=-mod=mod GOPROXY=off GOSUMDB=off GOTOOLCHAIN=local
out=/verif/seeded/$name; mkdir -p $out
cp $mdir/patch.diff $out/patch.diff
[ -f $mdir/zz_demo_test.go ] && cp $mdir/zz_demo_test.go $out/zz_demo_test.go.txt
[ -d $mdir/zzdemo ] && cp -r $mdir/zzdemo $out/zzdemo
[ -f $mdir/NOTES.md ] && cp $mdir/NOTES.md $out/NOTES.md
scratch=/tmp/seedchk-$$
git -C /repo worktree add -q --detach $scratch HEAD
res() { echo "$1" | tee -a $out/confirm.log; }
: > $out/confirm.log
( cd $scratch && git apply $out/patch.diff ) || { res "patch does not apply"; git -C /repo worktree remove --force $scratch; exit 1; }
( cd $scratch && go build ./... && go vet . ) > /dev/null 2>&1 && res "build+vet with change: ok" || res "build+vet with change: FAIL"
( cd $scratch && go test -count=1 . ) > $out/suite.log 2>&1 && res "suite with change: green" || res "suite with change: RED"
( cd $scratch && go test -count=1 ./scripts/check-checks/ ) >> $out/suite.log 2>&1 && res "check-checks with change: green" || res "check-checks with change: RED"
if [ -f $out/zz_demo_test.go.txt ]; then
  cp $out/zz_demo_test.go.txt $scratch/zz_demo_test.go
  ( cd $scratch && go test -count=1 -run TestZZDemo . ) > $out/demo_with.log 2>&1 && res "demo with change: PASSES (unexpected)" || res "demo with change: fails (expected)"
  ( cd $scratch && git apply -R $out/patch.diff && go test -count=1 -run TestZZDemo . ) > $out/demo_without.log 2>&1 && res "demo without change: passes (expected)" || res "demo without change: FAILS (unexpected)"
elif [ -d $out/zzdemo ]; then
  cp -r $out/zzdemo $scratch/zzdemo
  ( cd $scratch && go run ./zzdemo ) > $out/demo_with.log 2>&1 && res "demo with change: PASSES (unexpected)" || res "demo with change: fails (expected)"
  ( cd $scratch && git apply -R $out/patch.diff && go run ./zzdemo ) > $out/demo_without.log 2>&1 && res "demo without change: passes (expected)" || res "demo without change: FAILS (unexpected)"
fi
git -C /repo worktree remove --force $scratch
# run the checks against the change
git -C /repo apply $out/patch.diff || { res "cannot apply to /repo"; exit 1; }
for p in "$@"; do
  ( cd /verif && VERIF_SEED=${VERIF_SEED:-1} ./check $p --tier quick ) > $out/check_$p.log 2>&1
  rc=$?
  res "check $p: exit $rc: $(grep -c '^VIOLATION' $out/check_$p.log) VIOLATION line(s): $(grep '^VIOLATION' $out/check_$p.log | head -3 | tr '\n' ' ')"
done
git -C /repo checkout -- . ; git -C /repo status --short | grep -v '^??' | head -3
# regenerate the fact tables from the restored tree (they were regenerated from the changed tree by the checks above)
( cd /verif/go && export CGO_ENABLED=0 && go build -tags verif -o bin/ ./... && ./bin/extract -repo /repo -out /verif/lean/AL/Gen -facts /verif/evidence/facts.json ) > /dev/null 2>&1
