#!/usr/bin/env python3
"""tools/mkmeta.py <seeded-name> <property> <change> <needs> [<how-caught-note>]
Writes seeded/<name>/meta.json from the logs tools/seed_eval.sh left there."""
import json, os, re, sys
name, prop, change, needs = sys.argv[1:5]
note = sys.argv[5] if len(sys.argv) > 5 else ""
d = os.path.join(os.path.dirname(os.path.abspath(__file__)), "..", "seeded", name)
log = [l.rstrip() for l in open(os.path.join(d, "confirm.log")) if l.strip()]
last = [l for l in log if l.startswith("check " + prop + ":")] or [l for l in log if l.startswith("check ")]
res = "missed"
m = re.search(r"replays/\w+/([^ ]+?)-[0-9a-f]{10}\.json", last[-1]) if last else None
if last and "exit 1" in last[-1] and m:
    res = "caught: " + m.group(1)
meta = {
    "name": name, "breaks_property": prop, "change": change, "needs_to_manifest": needs,
    "produced_by": "independent sub-agent that saw only the property text and its own scratch worktree (tools/mutant_prompt.py)",
    "confirmed_by_me": {
        "how": "tools/seed_eval.sh: scratch worktree of /repo, patch applied, go build/vet, root test suite + scripts/check-checks, demo with and without the change; then `git -C /repo apply patch.diff`, ./check <property> --tier quick, `git -C /repo checkout -- .`",
        "log_of_last_run": log[-6:],
    },
    "check_result": res,
}
if note:
    meta["strengthening"] = note
meta["files"] = sorted(f for f in os.listdir(d) if f != "meta.json")
json.dump(meta, open(os.path.join(d, "meta.json"), "w"), indent=1)
print(name, res)
