#!/bin/sh
# Build the framework from files on disk only (offline).
set -e
cd "$(dirname "$0")"
export GOFLAGS=-mod=mod GOPROXY=off GOSUMDB=off GOTOOLCHAIN=local CGO_ENABLED=0
export GOCACHE="$PWD/go/.cache"
mkdir -p go/bin evidence replays
cp /repo/go.sum go/go.sum
(cd go && go build -tags verif -o bin/ ./...)
if [ -x go/bin/extract ]; then
  go/bin/extract -repo /repo -out lean/AL/Gen -facts evidence/facts.json
fi
(cd lean && lake build AL Driver aldriver)
echo "setup ok"
